------------------------------- MODULE P_C05 -------------------------------
(***************************************************************************)
(* C05  Totality: no panic, no hang, linear bound on successful items,     *)
(* fused after None with the source exhausted, source I/O errors surface   *)
(* as the read error carrying the original error.  Monitor over next /     *)
(* recover / read events.  Reads only result *classes* (item | err | none  *)
(* | panic | hang), counts, the io string and the scripted reads - never   *)
(* which error a corrupt byte produces.                                     *)
(***************************************************************************)
EXTENDS ReaderObs

M0 == [ok |-> TRUE, why |-> "", items |-> 0, delivered |-> 0, srcEof |-> FALSE, ended |-> FALSE, pendingIo |-> ""]

StepRead(inp, m, e) ==
  IF e.n < 0 THEN [m EXCEPT !.pendingIo = e.io]
  ELSE IF e.n = 0 THEN [m EXCEPT !.srcEof = (m.delivered >= Len(inp))]
  ELSE [m EXCEPT !.delivered = @ + e.n]

Step(sch, inp, cfg, m, e) ==
  IF ~m.ok THEN m
  ELSE IF e.res \in {"panic", "hang"} THEN Fail(m, "C05: " \o e.ev \o "() " \o e.res)
  ELSE IF e.ev = "recover" THEN
    IF m.pendingIo # "" /\ e.res = "io" THEN (IF e.io = m.pendingIo THEN [m EXCEPT !.pendingIo = ""] ELSE Fail(m, "C05: try_recover reports a different I/O error than the source produced"))
    ELSE m
  ELSE \* next
    IF e.res = "item" THEN
      IF m.ended THEN Fail(m, "C05: an item after None although the source is exhausted (not fused)")
      ELSE IF m.items + 1 > 2 * Len(inp) + MaxDepth(sch) + 1 THEN Fail(m, "C05: more successful items than a linear bound of the input length")
      ELSE [m EXCEPT !.items = @ + 1]
    ELSE IF e.res = "none" THEN
      IF m.pendingIo # "" THEN Fail(m, "C05: source I/O error was swallowed (None returned)")
      ELSE [m EXCEPT !.ended = @ \/ (m.delivered >= Len(inp) /\ m.srcEof)]
    ELSE IF e.res = "err" THEN
      \* a source that fails - even after it had returned 0 bytes - is not an exhausted source: its error must surface
      IF m.pendingIo # "" THEN
        (IF e.ekind = "io" /\ e.io = m.pendingIo THEN [m EXCEPT !.pendingIo = ""]
         ELSE Fail(m, "C05: source I/O error did not surface as the read error carrying the original error"))
      ELSE IF m.ended THEN Fail(m, "C05: an error after None although the source is exhausted (not fused)")
      ELSE IF e.ekind = "io" THEN Fail(m, "C05: read error reported although the source did not fail")
      ELSE m
    ELSE Fail(m, "C05: unknown result class " \o e.res)
=============================================================================
