------------------------------- MODULE P_C06 -------------------------------
(***************************************************************************)
(* C06  With no errors tolerated the successful items form a well-nested,  *)
(* hierarchy-valid, size-contained sequence.  Monitor over the results of  *)
(* successive next() calls of one *strict* run, up to the first error.     *)
(* Reads: input (to decode the header found at an item's offset: sizes),   *)
(* kind, id, off of items, none.                                            *)
(*   open  shadow stack of [id, end] (end = -1: unknown size; implied       *)
(*         ancestors have end = -1)                                         *)
(*   doc   the first non-global element has fixed the document position     *)
(*   cur   end of the last non-End item (header end for a Start)            *)
(***************************************************************************)
EXTENDS ReaderObs

M0 == [ok |-> TRUE, why |-> "", live |-> TRUE, open |-> <<>>, doc |-> FALSE, cur |-> 0]
Ids(open) == [i \in 1..Len(open) |-> open[i].id]
KnownEnds(open) == {open[i].end : i \in {j \in 1..Len(open) : open[j].end >= 0}}

Step(sch, inp, cfg, m, e) ==
  IF ~m.live \/ ~m.ok THEN m
  ELSE IF e.res = "err" THEN [m EXCEPT !.live = FALSE]
  ELSE IF e.res = "none" THEN
    \* input ended: every open master has received its End (when end-of-stream closing is on)
    IF cfg.eofClose /\ m.open # <<>> THEN Fail(m, "C06: end of input reached but an open master never received its End")
    ELSE m
  ELSE IF e.res # "item" THEN Fail(m, "C06: unexpected result " \o e.res)
  ELSE IF e.kind = "end" THEN
    IF m.open = <<>> THEN Fail(m, "C06: End without an open master")
    ELSE LET top == m.open[Len(m.open)] IN
      IF top.id # e.id THEN Fail(m, "C06: End does not match the most recent unmatched Start (or implied ancestor)")
      \* a known-size master ends exactly when its byte range is exhausted (or the input ends)
      ELSE IF top.end >= 0 /\ m.cur # top.end /\ m.cur < Len(inp) THEN Fail(m, "C06: End of a known-size master not emitted exactly when its range was exhausted")
      ELSE [m EXCEPT !.open = SubSeq(@, 1, Len(@) - 1)]
  ELSE IF e.kind = "raw" \/ ~KnownId(sch, e.id) THEN Fail(m, "C06: strict mode emitted an element whose id is not in the specification")
  ELSE
    LET h == HeaderAt(inp, e.off)
        p == PathOf(sch, e.id)
        \* the first non-global element fixes the position: its named ancestors are implied open masters
        seeded == ~m.doc /\ AllIds(p)
        open1 == IF seeded THEN [i \in 1..Len(p) |-> [id |-> p[i].id, end |-> -1]] \o m.open ELSE m.open
        doc1 == m.doc \/ seeded
    IN
    IF h.t # "ok" THEN Fail(m, "C06: no complete tag header at the item's offset")
    ELSE IF \E x \in KnownEnds(open1) : e.off >= x THEN Fail(m, "C06: item emitted after an enclosing known-size master was exhausted but before its End")
    ELSE IF doc1 /\ ~PathAllows(sch, e.id, Ids(open1)) THEN Fail(m, "C06: element is not under the chain of open masters its declared path allows")
    ELSE IF \E x \in KnownEnds(open1) : e.off + h.hlen + (IF h.unk THEN 0 ELSE h.size) > x THEN Fail(m, "C06: element overruns an enclosing known-size master")
    ELSE IF e.kind = "start" THEN
      [m EXCEPT !.open = Append(open1, [id |-> e.id, end |-> IF h.unk THEN -1 ELSE e.off + h.hlen + h.size]),
                !.doc = doc1, !.cur = e.off + h.hlen]
    ELSE IF e.kind = "full" THEN
      LET end == WalkKids(sch, inp, e.off + h.hlen, e.kids) IN
      [m EXCEPT !.open = open1, !.doc = doc1, !.cur = IF h.unk THEN Max(end, e.off + h.hlen) ELSE e.off + h.hlen + h.size]
    ELSE [m EXCEPT !.open = open1, !.doc = doc1, !.cur = e.off + h.hlen + (IF h.unk THEN 0 ELSE h.size)]
=============================================================================
