------------------------------- MODULE P_C07 -------------------------------
(***************************************************************************)
(* C07  Unknown-size masters end where EBML says.  Monitor over one run    *)
(* (up to the first error): whenever a non-End item or the end of input    *)
(* arrives, the Ends emitted since the previous non-End item must be       *)
(* exactly: the masters inside (and including) the outermost known-size    *)
(* master whose range is exhausted, then the unknown-size masters the new  *)
(* element closes (ClosedBy: sibling / ancestor / root element, closing    *)
(* nested unknown-size masters along), innermost first - and at end of     *)
(* input every open master.  Global elements and elements outside the      *)
(* specification close nothing (ClosedBy).  Reads input, kind, id, off.    *)
(* The relation "same tags as the all-known-size encoding" is evaluated at *)
(* the end of a case (SameTags).                                            *)
(***************************************************************************)
EXTENDS ReaderObs

M0 == [ok |-> TRUE, why |-> "", live |-> TRUE, open |-> <<>>, cur |-> 0, ends |-> <<>>, doc |-> FALSE]

\* masters closed by exhaustion at cursor cur: from the outermost exhausted known-size master upwards
Exhausted(open, cur) ==
  LET ex == {i \in 1..Len(open) : ~open[i].unk /\ cur >= open[i].end} IN
  IF ex = {} THEN 0 ELSE Len(open) - (CHOOSE i \in ex : \A j \in ex : i <= j) + 1
\* ids of the top k masters, innermost first
TopIds(open, k) == [i \in 1..k |-> open[Len(open) - i + 1].id]
EndIds(ends) == [i \in 1..Len(ends) |-> ends[i].id]

Step(sch, inp, cfg, m, e) ==
  IF ~m.live \/ ~m.ok THEN m
  ELSE IF e.res = "err" THEN [m EXCEPT !.live = FALSE]
  ELSE IF e.res = "none" THEN
    IF ~cfg.eofClose THEN m
    ELSE IF m.cur < Len(inp) THEN m                                \* not at the end of input: other properties judge this
    ELSE IF EndIds(m.ends) # TopIds(m.open, Len(m.open)) THEN Fail(m, "C07: at end of input the open masters did not all receive their End, innermost first")
    ELSE [m EXCEPT !.open = <<>>, !.ends = <<>>]
  ELSE IF e.res # "item" THEN Fail(m, "C07: unexpected result " \o e.res)
  ELSE IF e.kind = "end" THEN [m EXCEPT !.ends = Append(@, e)]
  ELSE
    LET h == HeaderAt(inp, e.off)
        p == PathOf(sch, e.id)
        \* exhaustion is noticed first; the first non-global element puts its implied ancestors below what is open
        k1 == Exhausted(m.open, m.cur)
        seeded == ~cfg.allowHier /\ KnownId(sch, e.id) /\ ~m.doc /\ AllIds(p)
        open0 == m.open
        open1 == (IF seeded THEN [i \in 1..Len(p) |-> [id |-> p[i].id, unk |-> TRUE, end |-> -1]] ELSE <<>>)
                 \o SubSeq(open0, 1, Len(open0) - k1)
        k2 == ClosedBy(sch, open1, e.id)
        open2 == SubSeq(open1, 1, Len(open1) - k2)
    IN
    IF h.t # "ok" THEN Fail(m, "C07: no complete tag header at the item's offset")
    ELSE IF EndIds(m.ends) # TopIds(open0, k1) \o TopIds(open1, k2)
      THEN Fail(m, "C07: the Ends emitted before this element are not exactly the masters it (or exhaustion) closes")
    ELSE IF e.kind = "start" THEN
      [m EXCEPT !.open = Append(open2, [id |-> e.id, unk |-> h.unk, end |-> IF h.unk THEN -1 ELSE e.off + h.hlen + h.size]),
                !.cur = e.off + h.hlen, !.ends = <<>>, !.doc = @ \/ seeded]
    ELSE IF e.kind = "full" /\ cfg.allowSize THEN [m EXCEPT !.live = FALSE]   \* extent of the Full is not observable (see P_C03)
    ELSE IF e.kind = "full" THEN
      LET end == WalkKids(sch, inp, e.off + h.hlen, e.kids) IN
      [m EXCEPT !.open = open2, !.ends = <<>>, !.doc = @ \/ seeded,
                !.cur = IF h.unk THEN Max(end, e.off + h.hlen) ELSE Max(end, e.off + h.hlen + h.size)]
    ELSE [m EXCEPT !.open = open2, !.ends = <<>>, !.doc = @ \/ seeded, !.cur = e.off + h.hlen + (IF h.unk THEN 0 ELSE h.size)]

\* relation between two runs of differently encoded versions of one document: same tags, same values
SameTags(a, b) == LET x == Items(a)  y == Items(b) IN
  /\ Len(x) = Len(y) /\ \A i \in 1..Len(x) : KidSame(x[i], y[i])
  /\ FirstNonItem(a).res = FirstNonItem(b).res
=============================================================================
