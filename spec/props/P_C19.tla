------------------------------- MODULE P_C19 -------------------------------
(***************************************************************************)
(* C19  A rejected write leaves no trace in the output.  Relation between  *)
(* two runs of the writer: `with` - a valid call sequence with failing     *)
(* calls inserted (marked in the case header) - and `without` - the same   *)
(* sequence without them.  Reads res and dest_tail of every call.          *)
(***************************************************************************)
EXTENDS WriterObs

RECURSIVE Unmarked(_, _, _)
Unmarked(evs, marks, i) == IF i > Len(evs) THEN <<>>
                           ELSE (IF marks[i] THEN <<>> ELSE <<evs[i]>>) \o Unmarked(evs, marks, i + 1)
\* optional[i]: the inserted call i is one the writer may also accept (no property demands its rejection - e.g. a Full
\* item with the unknown-size option); if it is accepted the case says nothing about C19
Rel(with, without, marks, optional) ==
  IF Len(marks) = Len(with) /\ \E i \in 1..Len(with) : marks[i] /\ i <= Len(optional) /\ optional[i] /\ with[i].res = "ok" THEN ""
  ELSE IF Len(marks) # Len(with) THEN (IF \E i \in 1..Len(with) : with[i].res = "panic" THEN "C19: a writer call panicked" ELSE "C19: (driver) run cut short")
  ELSE IF \E i \in 1..Len(with) : marks[i] /\ with[i].res \in {"ok", "io", "panic"} THEN "C19: a call that must be rejected was not rejected with a non-I/O error"
  ELSE LET common == Unmarked(with, marks, 1) IN
  IF Len(common) # Len(without) \/ \E i \in 1..Len(common) : common[i].res # without[i].res THEN "C19: calls after a rejected write do not behave as if it had never been made"
  ELSE IF DestOf(with, Len(with)) # DestOf(without, Len(without)) THEN "C19: the final output differs from the output without the rejected calls"
  ELSE ""
=============================================================================
