------------------------------- MODULE P_C13 -------------------------------
(***************************************************************************)
(* C13  Each tolerance switch relaxes only its own check; relaxing never   *)
(* loses tags.  Relations over the runs of one input under different       *)
(* tolerance sets / size limits.  Reads kind, id, off, val of items and    *)
(* ekind, pos, id of the first error; the case may carry the descriptor of *)
(* a single injected fault.                                                 *)
(***************************************************************************)
EXTENDS ReaderObs

\* one run by itself
RunOk(cfg, evs) ==
  LET its == Items(evs)  e == FirstNonItem(evs) IN
  IF ~cfg.allowId /\ \E i \in 1..Len(its) : its[i].kind = "raw" THEN "C13: raw tag emitted although invalid ids are not tolerated"
  ELSE IF e.res = "err" /\ e.ekind = "bad_id" /\ cfg.allowId THEN "C13: invalid-id error although invalid ids are tolerated"
  ELSE IF e.res = "err" /\ e.ekind = "hier" /\ cfg.allowHier THEN "C13: hierarchy error although hierarchy problems are tolerated"
  ELSE IF e.res = "err" /\ e.ekind = "oversized" /\ cfg.allowSize THEN "C13: oversized-child error although oversized tags are tolerated"
  ELSE IF e.res = "err" /\ e.ekind = "too_big" /\ (~cfg.hasMax \/ ~e.has_size \/ ~WLt(cfg.max, e.size)) THEN "C13: size-limit error for a size within the configured limit"
  ELSE ""
\* the strict run of a document with one injected fault reports that fault, specifically
FaultOk(fault, evs) ==
  LET e == FirstNonItem(evs) IN
  IF e.res # "err" \/ e.ekind # fault.class THEN "C13: strict mode did not report the injected fault with its specific error kind"
  ELSE IF ~e.has_id \/ e.id # fault.id THEN "C13: the error does not carry the offending id"
  ELSE IF fault.class # "hier" /\ e.pos # fault.off THEN "C13: the error is not reported at the offending element's offset"
  ELSE ""
\* tolerating the fault's class makes that error go away at that element
ToleratedOk(fault, cfg, evs) ==
  LET e == FirstNonItem(evs)
      tol == (fault.class = "bad_id" /\ cfg.allowId) \/ (fault.class = "hier" /\ cfg.allowHier) \/ (fault.class = "oversized" /\ cfg.allowSize) IN
  IF tol /\ e.res = "err" /\ e.ekind = fault.class THEN "C13: tolerated error class still reported" ELSE ""
\* strict items are a prefix of the items of any more tolerant run (same limit), for inputs starting at a root
RECURSIVE PrefixItems(_, _, _)
PrefixItems(a, b, i) == i > Len(a) \/ (i <= Len(b) /\ ItemSame(a[i], b[i]) /\ PrefixItems(a, b, i + 1))
StrictPrefix(strict, tolerant) ==
  IF PrefixItems(Items(strict), Items(tolerant), 1) THEN "" ELSE "C13: items of the strict parse are not a prefix of those of a more tolerant parse"
=============================================================================
