----------------------------- MODULE WriterObs -----------------------------
(* Observation helpers for the property specifications of the writer (P_C01, *)
(* P_C02, P_C09, P_C10, P_C19): everything is computed from recorded `write`  *)
(* events (call, result, bytes the destination received) and read-backs.      *)
EXTENDS ReaderObs, Writer

OpOf(e) == [k |-> e.k, id |-> e.id, ty |-> e.ty, val |-> e.val, width |-> e.width, unknown |-> e.unknown, kids |-> e.kids]
\* bytes the destination holds after the recorded calls evs[1..n]
RECURSIVE DestOf(_, _)
DestOf(evs, n) == IF n = 0 THEN <<>> ELSE DestOf(evs, n - 1) \o evs[n].dest_tail
AllOk(evs) == \A i \in 1..Len(evs) : evs[i].res = "ok"
\* the flat tags a successful call adds to what has been written (masters as Start / End; no offsets)
Flat(kind, id, ty, val) == [kind |-> kind, id |-> id, ty |-> ty, val |-> val, kids |-> <<>>, off |-> -1]
TagsOf(e, openIds) ==
  CASE e.k \in {"elem", "rawtag"} -> <<Flat(IF e.k = "rawtag" THEN "raw" ELSE "elem", e.id, e.ty, e.val)>>
    [] e.k = "write_raw" -> <<Flat("raw", WStrip(e.id), "raw", e.val)>>          \* (drivers use ids outside the specification)
    [] e.k \in {"start", "start_unknown_dep"} -> <<Flat("start", e.id, "master", <<>>)>>
    [] e.k = "end" -> <<Flat("end", e.id, "master", <<>>)>>
    [] e.k = "full" -> UnrollKid([kind |-> "full", id |-> e.id, ty |-> "master", val |-> <<>>, kids |-> e.kids])
    [] e.k \in {"flush", "into_inner"} -> [i \in 1..Len(openIds) |-> Flat("end", openIds[Len(openIds) - i + 1], "master", <<>>)]
    [] OTHER -> <<>>
SameFlat(a, b) == Len(a) = Len(b) /\ \A i \in 1..Len(a) : FlatSame(a[i], b[i])
ReadCfg(allowIds, eofClose) == [allowId |-> allowIds, allowHier |-> FALSE, allowSize |-> FALSE, hasMax |-> FALSE, max |-> <<>>,
                                buffered |-> {}, eofClose |-> eofClose, cap0 |-> 16]
=============================================================================
