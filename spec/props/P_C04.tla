------------------------------- MODULE P_C04 -------------------------------
(***************************************************************************)
(* C04 / C20  Schedule independence.  Relation between a reference run     *)
(* (whole input from a slice / blocking iterator) and a run of the same    *)
(* configuration under a read schedule, capacity and EOF pauses (or the    *)
(* async iterator under a poll schedule): the sequences of results are     *)
(* equal item by item - values, offsets and the first error with all its   *)
(* fields.  `none` results returned at a pause of the source (bytes still  *)
(* outstanding) are not part of the sequence.                               *)
(***************************************************************************)
EXTENDS ReaderObs

\* results up to and including the first error / final none.  A None returned while the source still held undelivered
\* bytes (a temporary end-of-file; recorded as pause = TRUE) is not part of the sequence; any other None is.
IsPause(e) == e.res = "none" /\ "pause" \in DOMAIN e /\ e.pause
RECURSIVE Canon(_, _, _)
Canon(evs, i, acc) ==
  IF i > Len(evs) THEN acc
  ELSE IF evs[i].res = "item" THEN Canon(evs, i + 1, Append(acc, evs[i]))
  ELSE IF IsPause(evs[i]) THEN Canon(evs, i + 1, acc)
  ELSE Append(acc, evs[i])
\* the stream adapter exposes no offsets: items are compared by kind, id and value only
ResSameNoOff(a, b) == a.res = b.res /\ (a.res = "item" => KidSame(a, b)) /\ (a.res = "err" => ErrSame(a, b))
RelNoOff(ref, run) ==
  LET a == Canon(ref, 1, <<>>)  b == Canon(run, 1, <<>>) IN
  IF Len(a) # Len(b) THEN "C20: the stream yields a different number of results than the blocking iterator"
  ELSE IF \E i \in 1..Len(a) : ~ResSameNoOff(a[i], b[i]) THEN "C20: a result of the stream differs from the blocking iterator"
  ELSE ""
Rel(ref, run) ==
  LET a == Canon(ref, 1, <<>>)  b == Canon(run, 1, <<>>) IN
  IF Len(a) # Len(b) THEN "C04: the scheduled run yields a different number of results than the reference run"
  ELSE IF \E i \in 1..Len(a) : ~ResSame(a[i], b[i]) THEN "C04: a result (item, offset or first error) differs from the reference run"
  ELSE ""
=============================================================================
