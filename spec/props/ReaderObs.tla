----------------------------- MODULE ReaderObs -----------------------------
(***************************************************************************)
(* Observation helpers shared by the property specifications of the        *)
(* reader (P_C03 .. P_C14, P_C20): everything here is computed from the    *)
(* *input bytes* and the *recorded results* only, never from the reader's  *)
(* internal state.  Results have the shape of `next` events / of the       *)
(* results of ReaderCore (res, kind, id, off, ty, val, kids | ekind, ...). *)
(***************************************************************************)
EXTENDS ReaderCore

Fail(m, why) == [m EXCEPT !.ok = FALSE, !.why = why]
IsItem(e) == e.res = "item"
IsEndItem(e) == e.res = "item" /\ e.kind = "end"
ValEq(ty, a, b) == IF ty = "float" THEN FloatEq(a, b) ELSE a = b

\* decoded value of the element whose header h starts at off (h.t = "ok", known size, inside inp)
PayloadAt(inp, off, h) == SubSeq(inp, off + h.hlen + 1, off + h.hlen + h.size)

(* Walk the children of a Full item over the bytes: every kid must be the tag found at the   *)
(* running position, with the documented value; returns the position after the last kid, or   *)
(* -1 if some kid does not mirror the bytes.                                                  *)
RECURSIVE WalkKids(_, _, _, _)
WalkKid(sch, inp, pos, k) ==
  LET h == HeaderAt(inp, pos) IN
  IF h.t # "ok" \/ h.id # k.id THEN -1
  ELSE IF k.kind = "full" THEN
         LET e == WalkKids(sch, inp, pos + h.hlen, k.kids) IN
         IF e < 0 THEN -1 ELSE IF h.unk THEN e ELSE Max(e, Min(Len(inp), pos + h.hlen + h.size))
  ELSE IF h.unk \/ pos + h.hlen + h.size > Len(inp) THEN -1
  ELSE LET ty == TypeOf(sch, k.id)  d == Decode(ty, PayloadAt(inp, pos, h)) IN
       IF k.ty # ty \/ d.t # "ok" \/ ~ValEq(ty, d.val, k.val) THEN -1
       ELSE IF (k.kind = "raw") # (ty = "raw") THEN -1
       ELSE pos + h.hlen + h.size
WalkKids(sch, inp, pos, kids) ==
  IF kids = <<>> \/ pos < 0 THEN pos
  ELSE WalkKids(sch, inp, WalkKid(sch, inp, pos, kids[1]), Tail(kids))

\* successful items of a run up to (excluding) its first non-item result
RECURSIVE ItemsPrefix(_, _)
ItemsPrefix(evs, i) == IF i > Len(evs) \/ evs[i].res # "item" THEN <<>> ELSE <<evs[i]>> \o ItemsPrefix(evs, i + 1)
Items(evs) == ItemsPrefix(evs, 1)
\* first non-item result (or a pseudo result if the run was cut short)
FirstNonItem(evs) == LET n == Len(Items(evs)) IN IF n < Len(evs) THEN evs[n + 1] ELSE [res |-> "cut"]

\* equality of two results on the fields properties speak about
RECURSIVE KidsSame(_, _)
KidSame(a, b) == a.kind = b.kind /\ a.id = b.id /\ a.ty = b.ty /\ ValEq(a.ty, a.val, b.val) /\ KidsSame(a.kids, b.kids)
KidsSame(x, y) == Len(x) = Len(y) /\ \A i \in 1..Len(x) : KidSame(x[i], y[i])
ItemSame(a, b) == KidSame(a, b) /\ a.off = b.off               \* value and offset
ErrSame(a, b) == /\ a.ekind = b.ekind /\ a.pos = b.pos /\ a.has_id = b.has_id /\ a.id = b.id
                 /\ a.has_size = b.has_size /\ a.size = b.size /\ a.has_partial = b.has_partial
                 /\ a.partial = b.partial /\ a.has_parent = b.has_parent /\ a.parent = b.parent
ResSame(a, b) == a.res = b.res /\ (a.res = "item" => ItemSame(a, b)) /\ (a.res = "err" => ErrSame(a, b))

\* a Full item (or kid) unrolled into Start, children, End; offsets only for top-level items
RECURSIVE UnrollKids(_)
UnrollKid(k) == IF k.kind = "full"
                THEN <<[kind |-> "start", id |-> k.id, ty |-> "master", val |-> <<>>, kids |-> <<>>, off |-> -1]>>
                     \o UnrollKids(k.kids)
                     \o <<[kind |-> "end", id |-> k.id, ty |-> "master", val |-> <<>>, kids |-> <<>>, off |-> -1]>>
                ELSE <<[kind |-> k.kind, id |-> k.id, ty |-> k.ty, val |-> k.val, kids |-> <<>>, off |-> -1]>>
UnrollKids(ks) == IF ks = <<>> THEN <<>> ELSE UnrollKid(ks[1]) \o UnrollKids(Tail(ks))
UnrollItem(e) == IF e.kind = "full"
                 THEN <<[kind |-> "start", id |-> e.id, ty |-> "master", val |-> <<>>, kids |-> <<>>, off |-> e.off]>>
                      \o UnrollKids(e.kids)
                      \o <<[kind |-> "end", id |-> e.id, ty |-> "master", val |-> <<>>, kids |-> <<>>, off |-> e.off]>>
                 ELSE <<[kind |-> e.kind, id |-> e.id, ty |-> e.ty, val |-> e.val, kids |-> e.kids, off |-> e.off]>>
RECURSIVE Unroll(_)
Unroll(items) == IF items = <<>> THEN <<>> ELSE UnrollItem(items[1]) \o Unroll(Tail(items))
\* unrolled items compare with flat ones on kind, id, value, and on the offset when it is known (-1 = inside a Full)
FlatSame(u, f) == u.kind = f.kind /\ u.id = f.id /\ u.ty = f.ty /\ ValEq(u.ty, u.val, f.val) /\ (u.off >= 0 => u.off = f.off)

MaxDepth(sch) == LET S == {Len(sch[i].path) : i \in 1..Len(sch)} IN
                 IF S = {} THEN 0 ELSE CHOOSE d \in S : \A x \in S : x <= d
=============================================================================
