------------------------------- MODULE P_C14 -------------------------------
(***************************************************************************)
(* C14  Recovery after inserted junk resumes at the next tag and loses     *)
(* nothing else.  (a) Monitor over any run with try_recover() calls:       *)
(* recover never panics, never moves backwards, fails only by end of input *)
(* or a source I/O error.  (b) Relation between the run over a valid       *)
(* known-size document (orig) and the run (next; on error try_recover;     *)
(* continue) over the same document with junk inserted at a tag boundary.  *)
(* Reads items (kind, id, off, val), recover results, st.pos (hook).       *)
(***************************************************************************)
EXTENDS ReaderObs

M0 == [ok |-> TRUE, why |-> "", pos |-> 0]
Step(sch, inp, cfg, m, e) ==
  IF ~m.ok THEN m
  ELSE IF e.res = "panic" THEN Fail(m, "C14: " \o e.ev \o "() panicked")
  ELSE IF e.ev = "recover" THEN
    IF e.res \notin {"ok", "eof", "io"} THEN Fail(m, "C14: try_recover failed with something other than end of input or an I/O error")
    ELSE IF "st" \in DOMAIN e /\ e.st.pos < m.pos THEN Fail(m, "C14: try_recover moved backwards")
    ELSE IF "st" \in DOMAIN e THEN [m EXCEPT !.pos = e.st.pos] ELSE m
  ELSE IF "st" \in DOMAIN e THEN [m EXCEPT !.pos = e.st.pos] ELSE m

\* shift the offset of an item that starts at or after the junk position
Shift(x, at, n) == IF x.off >= at THEN [x EXCEPT !.off = @ + n] ELSE x
\* orig: results of the undamaged document; dmg: results of the damaged one (next and recover events)
Rel(orig, dmg, at, n) ==
  LET o == Items(orig)
      nexts == SelectSeq(dmg, LAMBDA e : e.ev = "next")
      recs  == SelectSeq(dmg, LAMBDA e : e.ev = "recover")
      errs  == SelectSeq(nexts, LAMBDA e : e.res = "err")
      got   == SelectSeq(nexts, LAMBDA e : e.res = "item")
  IN
  IF FirstNonItem(orig).res # "none" THEN "C14: (driver) the undamaged document does not parse cleanly"
  ELSE IF Len(errs) # 1 THEN "C14: expected exactly one error for one run of junk"
  ELSE IF Len(recs) # 1 \/ recs[1].res # "ok" THEN "C14: try_recover() must succeed exactly once"
  ELSE IF Len(got) # Len(o) THEN "C14: tags were lost or invented around the junk"
  ELSE IF \E i \in 1..Len(o) : ~ItemSame(got[i], Shift(o[i], at, n)) THEN "C14: a tag differs from the undamaged document (value or shifted offset)"
  ELSE IF nexts[Len(nexts)].res # "none" THEN "C14: damaged document did not end normally after recovery"
  ELSE ""
=============================================================================
