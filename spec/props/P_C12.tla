------------------------------- MODULE P_C12 -------------------------------
(***************************************************************************)
(* C12  Truncated input yields the complete prefix, then an accurate       *)
(* end-of-file error.  Relation between the strict run over a whole valid  *)
(* document (full, ending cleanly) and the strict run over its first c     *)
(* bytes (cut).  Reads: the document bytes; all fields of the items of     *)
(* both runs; all four fields of the cut run's final error.                 *)
(***************************************************************************)
EXTENDS ReaderObs

\* where the tag of a non-End item x of the full run is complete (a Start once its header is)
DoneAt(inp, x) == LET h == HeaderAt(inp, x.off) IN
                  IF x.kind = "start" THEN x.off + h.hlen ELSE x.off + h.hlen + h.size
RECURSIVE FirstIncomplete(_, _, _, _)
FirstIncomplete(inp, f, c, i) ==
  IF i > Len(f) THEN 0
  ELSE IF f[i].kind # "end" /\ DoneAt(inp, f[i]) > c THEN i
  ELSE FirstIncomplete(inp, f, c, i + 1)
RECURSIVE Strip(_)         \* without trailing Ends
Strip(s) == IF s # <<>> /\ s[Len(s)].kind = "end" THEN Strip(SubSeq(s, 1, Len(s) - 1)) ELSE s
RECURSIVE OpenFold(_, _, _)   \* Starts still open after the items s[i..]
OpenFold(s, i, acc) ==
  IF i > Len(s) THEN acc
  ELSE IF s[i].kind = "start" THEN OpenFold(s, i + 1, Append(acc, s[i]))
  ELSE IF s[i].kind = "end" THEN OpenFold(s, i + 1, SubSeq(acc, 1, Len(acc) - 1))
  ELSE OpenFold(s, i + 1, acc)
AsEnd(st) == [st EXCEPT !.kind = "end"]
ItemsSame(a, b) == Len(a) = Len(b) /\ \A i \in 1..Len(a) : ItemSame(a[i], b[i])
\* of the Ends emitted just before the incomplete tag x, those owed to exhaustion of a known-size
\* master (the others are closed *by* x, which the truncated parse never gets to see)
RECURSIVE ExhCount(_, _, _, _)
ExhCount(inp, ends, xoff, i) ==          \* index of the last End whose master is known-size and exhausted at xoff
  IF i = 0 THEN 0
  ELSE LET h == HeaderAt(inp, ends[i].off) IN
       IF ~h.unk /\ ends[i].off + h.hlen + h.size <= xoff THEN i ELSE ExhCount(inp, ends, xoff, i - 1)

Rel(sch, inp, full, cut, c) ==
  LET f == Items(full)  g == Items(cut)  last == FirstNonItem(cut)  k == FirstIncomplete(inp, f, c, 1) IN
  IF FirstNonItem(full).res # "none" THEN "C12: (driver) the uncut document does not parse cleanly"
  ELSE IF inp = <<>> \/ IdAt(inp, 0).t # "ok" \/ ~IsRoot(sch, IdAt(inp, 0).id) THEN ""      \* a valid document begins at a root element
  ELSE IF k = 0 THEN        \* nothing is cut
    (IF ItemsSame(g, f) /\ last.res = "none" THEN "" ELSE "C12: complete document must read completely")
  ELSE
  LET x == f[k]  pre == SubSeq(f, 1, k - 1)  core == Strip(pre) IN
  IF x.off >= c THEN
    \* the cut falls on a tag boundary: complete tags, Ends of all open masters (innermost first), normal end
    LET open == OpenFold(core, 1, <<>>)
        want == core \o [i \in 1..Len(open) |-> AsEnd(open[Len(open) - i + 1])] IN
    IF last.res # "none" THEN "C12: a cut on a tag boundary must end normally"
    ELSE IF ~ItemsSame(g, want) THEN "C12: cut on a tag boundary: expected the complete tags, then the Ends of all open masters"
    ELSE ""
  ELSE
    LET h == HeaderAt(inp, x.off)  i == IdAt(inp, x.off)
        ends == SubSeq(pre, Len(core) + 1, Len(pre))
        want == core \o SubSeq(ends, 1, ExhCount(inp, ends, x.off, Len(ends)))
        idDone == x.off + i.len <= c
        hdrDone == x.off + h.hlen <= c IN
    IF ~ItemsSame(g, want) THEN "C12: the tags before the incomplete tag are not exactly the complete prefix"
    ELSE IF last.res # "err" \/ last.ekind # "eof" THEN "C12: a merely truncated document must end in UnexpectedEOF, never corruption"
    ELSE IF last.pos # x.off THEN "C12: tag_start is not the start offset of the incomplete tag"
    ELSE IF last.has_id # idDone \/ (idDone /\ last.id # x.id) THEN "C12: tag_id must be present exactly when the id bytes are complete"
    ELSE IF last.has_size # hdrDone \/ (hdrDone /\ ~WEq(last.size, h.sizeW)) THEN "C12: tag_size must be present exactly when the header is complete"
    ELSE IF hdrDone /\ (~last.has_partial \/ last.partial # SubSeq(inp, x.off + h.hlen + 1, c)) THEN "C12: partial_data must be exactly the payload bytes that were available"
    ELSE IF ~hdrDone /\ last.has_partial THEN "C12: partial_data present although the header is incomplete"
    ELSE ""
=============================================================================
