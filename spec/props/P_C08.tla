------------------------------- MODULE P_C08 -------------------------------
(***************************************************************************)
(* C08  Buffered (Full) masters are exactly the flat stream rolled up.     *)
(* Relation between the results of two runs over the same input and        *)
(* configuration, one without buffering (flat) and one with a set of       *)
(* buffered master ids (buf).  Reads kind, id, ty, val, kids, off, and the *)
(* class of the first non-item result.                                      *)
(***************************************************************************)
EXTENDS ReaderObs

RECURSIVE PrefixSame(_, _, _)
PrefixSame(u, f, i) == i > Len(u) \/ (i <= Len(f) /\ FlatSame(u[i], f[i]) /\ PrefixSame(u, f, i + 1))

\* "" if the relation holds, else the reason
Rel(flat, buf) ==
  LET f == Items(flat)  u == Unroll(Items(buf))  fe == FirstNonItem(flat)  be == FirstNonItem(buf) IN
  IF ~PrefixSame(u, f, 1) THEN "C08: unrolled buffered items are not a prefix of the unbuffered items"
  ELSE IF fe.res = "none" THEN
    (IF be.res # "none" THEN "C08: the unbuffered parse ends cleanly but the buffered one does not"
     ELSE IF Len(u) # Len(f) THEN "C08: the buffered parse ends cleanly but lost items"
     ELSE "")
  ELSE IF fe.res = "err" THEN
    (IF be.res # "err" THEN "C08: the unbuffered parse ends in an error but the buffered one does not" ELSE "")
  ELSE ""
\* every Full item is for a requested id, and no requested master is emitted as Start (outside an error)
OnlyRequested(buf, cfg) == \A i \in 1..Len(Items(buf)) :
   LET x == Items(buf)[i] IN (x.kind = "full" => x.id \in cfg.buffered) /\ (x.kind = "start" => x.id \notin cfg.buffered)
=============================================================================
