------------------------------- MODULE P_C03 -------------------------------
(***************************************************************************)
(* C03  Every emitted tag mirrors the bytes at its reported offset; tags   *)
(* tile the stream.  Monitor over the results of successive next() calls   *)
(* of one run, up to the first error.  Reads: input; kind, id, off, ty,    *)
(* val, kids of items.                                                      *)
(*   cur    where the next non-End item must start                          *)
(*   open   shadow stack of <<id, start offset>> of masters started so far  *)
(***************************************************************************)
EXTENDS ReaderObs

\* loose: after a Full item of a known-size master parsed with oversized children tolerated, the master may
\* have been closed early by the exhaustion of an enclosing master, so only a lower bound of cur is known
M0 == [ok |-> TRUE, why |-> "", live |-> TRUE, cur |-> 0, open |-> <<>>, loose |-> FALSE]

\* innermost open master with this id (0 if none: then it is an implied ancestor)
RECURSIVE FindOpen(_, _, _)
FindOpen(open, id, i) == IF i = 0 THEN 0 ELSE IF open[i][1] = id THEN i ELSE FindOpen(open, id, i - 1)

Step(sch, inp, cfg, m, e) ==
  IF ~m.live \/ ~m.ok THEN m
  ELSE IF e.res = "err" THEN [m EXCEPT !.live = FALSE]              \* checked up to the first error
  ELSE IF e.res = "none" THEN m
  ELSE IF e.res # "item" THEN Fail(m, "C03: result is neither item, error nor none: " \o e.res)
  ELSE IF e.kind = "end" THEN
    LET i == FindOpen(m.open, e.id, Len(m.open)) IN
    IF i = 0 THEN (IF e.off = 0 THEN m ELSE Fail(m, "C03: End of an implied ancestor must report offset 0"))
    ELSE IF e.off # m.open[i][2] THEN Fail(m, "C03: End does not report the offset of its master's Start")
    ELSE [m EXCEPT !.open = SubSeq(@, 1, i - 1)]
  ELSE
    LET h == HeaderAt(inp, e.off) IN
    IF (~m.loose /\ e.off # m.cur) \/ (m.loose /\ e.off < m.cur) THEN Fail(m, "C03: item does not start where the previous one ended (tiling)")
    ELSE IF h.t # "ok" \/ h.id # e.id THEN Fail(m, "C03: the id at the reported offset is not the item's id")
    ELSE IF e.kind = "start" THEN
      [m EXCEPT !.cur = e.off + h.hlen, !.open = Append(@, <<e.id, e.off>>), !.loose = FALSE]
    ELSE IF e.kind = "full" /\ cfg.allowSize THEN [m EXCEPT !.cur = e.off + h.hlen, !.loose = TRUE]
    ELSE IF e.kind = "full" THEN
      LET end == WalkKids(sch, inp, e.off + h.hlen, e.kids) IN
      IF end < 0 THEN Fail(m, "C03: a child of a Full item does not mirror the bytes of the master")
      ELSE [m EXCEPT !.cur = IF h.unk THEN end ELSE Max(end, Min(Len(inp), e.off + h.hlen + h.size)), !.loose = FALSE]
    ELSE \* elem / raw
      LET ty == TypeOf(sch, e.id) IN
      IF h.unk \/ e.off + h.hlen + h.size > Len(inp) THEN Fail(m, "C03: element emitted although its payload is not in the input")
      ELSE LET d == Decode(ty, PayloadAt(inp, e.off, h)) IN
        IF e.ty # ty \/ (e.kind = "raw") # (ty = "raw") THEN Fail(m, "C03: item has the wrong data type for its id")
        ELSE IF d.t # "ok" \/ ~ValEq(ty, d.val, e.val) THEN Fail(m, "C03: value is not the documented decoding of the payload bytes")
        ELSE [m EXCEPT !.cur = e.off + h.hlen + h.size, !.loose = FALSE]
=============================================================================
