------------------------------- MODULE P_C11 -------------------------------
(***************************************************************************)
(* C11  Hierarchy validation equals declared path semantics, in reader and *)
(* writer alike.  A function of (specification, chain of open masters,     *)
(* tag): the writer accepts the tag iff the chain matches its declared     *)
(* path read as a pattern (Schema!Matches); the strict reader accepts the  *)
(* element iff the chain that remains after closing the unknown-size       *)
(* masters it ends (Schema!ClosedBy) matches; rejections carry the         *)
(* offending id.  Reads chain, unk, tag and the two recorded verdicts.     *)
(***************************************************************************)
EXTENDS Schema

\* ex: the innermost `ex` masters of the chain had ended before the tag (the writer got their Ends; for the reader their
\* known-size range - or that of the master around them - was exhausted): the verdict is about the chain that is left
Ex(e) == IF "ex" \in DOMAIN e THEN e.ex ELSE 0
EffChain(e) == SubSeq(e.chain, 1, Len(e.chain) - Ex(e))
WriterOk(sch, e) ==
  LET allowed == PathAllows(sch, e.tag, EffChain(e)) IN
  IF e.w = "other" THEN "C11: the writer answered with something other than ok / unexpected-tag"
  ELSE IF allowed /\ e.w # "ok" THEN "C11: the writer rejected a tag whose declared path matches the chain of open masters"
  ELSE IF ~allowed /\ e.w = "ok" THEN "C11: the writer accepted a tag whose declared path does not match the chain of open masters"
  ELSE IF e.w = "unexpected_tag" /\ e.wid # e.tag THEN "C11: the unexpected-tag error does not carry the offending id"
  ELSE ""
ReaderOk(sch, e) ==
  IF e.r = "na" THEN ""
  ELSE LET ch == EffChain(e)
           stack == [i \in 1..Len(ch) |-> [id |-> ch[i], unk |-> e.unk[i]]]
           k == ClosedBy(sch, stack, e.tag)
           allowed == PathAllows(sch, e.tag, SubSeq(ch, 1, Len(ch) - k)) IN
  IF e.r = "other" THEN "C11: the strict reader answered with something other than the element / a hierarchy error"
  ELSE IF allowed /\ e.r # "ok" THEN "C11: the strict reader rejected an element whose path matches the chain that remains after closing"
  ELSE IF ~allowed /\ e.r = "ok" THEN "C11: the strict reader accepted an element whose path does not match the chain that remains after closing"
  ELSE IF e.r = "hier" /\ e.rid # e.tag THEN "C11: the hierarchy error does not carry the offending id"
  ELSE ""
=============================================================================
