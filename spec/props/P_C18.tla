------------------------------- MODULE P_C18 -------------------------------
(***************************************************************************)
(* C18  Derived specifications mean what was declared and are internally   *)
(* consistent.  Functions of a declaration D:                               *)
(*   decl event   both macro front-ends accept D iff Accepts(D), and when  *)
(*                both accept they generate the same code;                  *)
(*   table event  the compiled specification answers, for every declared   *)
(*                id and for undeclared probe ids, exactly as Table(D):     *)
(*                data type, path, which constructor yields a tag, which    *)
(*                accessor yields the payload, id and value returned, the   *)
(*                raw-tag variant.                                           *)
(***************************************************************************)
EXTENDS DeriveDecl
Kinds == <<"uint", "int", "utf8", "bin", "float", "master">>

DeclOk(e) ==
  LET acc == Accepts(e.variants) IN
  IF (e.attr = "ok") # acc THEN (IF acc THEN "C18: #[ebml_specification] rejected a well-formed declaration" ELSE "C18: #[ebml_specification] accepted a declaration it must reject")
  ELSE IF e.easy # "na" /\ (e.easy = "ok") # acc THEN (IF acc THEN "C18: easy_ebml! rejected a well-formed declaration" ELSE "C18: easy_ebml! accepted a declaration it must reject")
  ELSE IF e.attr = "ok" /\ e.easy = "ok" /\ ~e.tokens_equal THEN "C18: the two macro front-ends generate different code"
  ELSE ""
RowOk(sch, r) ==
  LET known == KnownId(sch, r.id)  ty == TypeOf(sch, r.id) IN
  /\ r.ty = (IF known THEN ty ELSE "none")
  /\ r.path = PathOf(sch, r.id)
  /\ \A k \in 1..6 : r.ctor[k] = (known /\ ty = Kinds[k])              \* constructs a tag of a type iff the id has that type
  /\ known => /\ r.id_back /\ r.val_back                                \* the tag returns its id and payload ...
              /\ \A k \in 1..6 : r.acc[k] = (ty = Kinds[k])             \* ... through the matching accessor and none through the others
  /\ r.raw_ok                                                            \* raw-tag variant: id and binary data come back
TableOk(e) ==
  LET sch == Table(e.variants) IN
  IF \E i \in 1..Len(e.rows) : ~RowOk(sch, e.rows[i]) THEN "C18: the generated specification does not mean what was declared (type, path, constructors or accessors)"
  ELSE IF ~KnownId(sch, <<191>>) \/ ~KnownId(sch, <<236>>) THEN "C18: Crc32 / Void missing"
  ELSE IF e.panics # 0 THEN "C18: the generated specification made the iterator or the writer panic (bad specification)"
  ELSE ""
=============================================================================
