------------------------------- MODULE P_C01 -------------------------------
(***************************************************************************)
(* C01  Write -> read round trip.  Relation over one case: the calls of a  *)
(* writer run presenting a specification-conformant tree (all accepted),   *)
(* and the strict read-back of the emitted bytes: exactly the same tags in *)
(* the same order (masters as Start/End pairs), values preserved bit for   *)
(* bit, no error.  `expect` is the flat tag sequence of the tree.          *)
(* C02  Read -> re-write -> read is a fixpoint: relation over r1 (strict   *)
(* read of a stream), the writer run that writes r1's tags back, and r2.   *)
(***************************************************************************)
EXTENDS WriterObs

RoundTrip(expect, evs, rb) ==
  IF ~AllOk(evs) THEN "C01: the writer rejected a specification-conformant tag sequence"
  ELSE IF rb.last.res # "none" THEN "C01: reading the emitted bytes with the strict iterator ends in an error"
  ELSE IF Len(rb.items) # Len(expect) THEN "C01: the strict iterator does not yield the same number of tags as were written"
  ELSE IF \E i \in 1..Len(expect) : ~KidSame(rb.items[i], expect[i]) THEN "C01: a tag read back differs from the tag written (kind, id or value)"
  ELSE ""
StartsAtRoot(sch, inp) == inp # <<>> /\ IdAt(inp, 0).t = "ok" /\ IsRoot(sch, IdAt(inp, 0).id)
Fixpoint(sch, r1, evs, r2) ==
  IF r1.last.res # "none" \/ r1.items = <<>> \/ ~StartsAtRoot(sch, r1.input) THEN ""        \* not accepted / not from a root: nothing promised
  ELSE IF ~AllOk(evs) THEN "C02: the writer rejected tags the strict reader accepted"
  ELSE IF r2.last.res # "none" THEN "C02: the re-written stream does not read cleanly"
  ELSE IF Len(r2.items) # Len(r1.items) \/ \E i \in 1..Len(r1.items) : ~KidSame(r2.items[i], r1.items[i])
       THEN "C02: the re-written stream reads as a different tag sequence"
  ELSE ""
=============================================================================
