------------------------------- MODULE P_C10 -------------------------------
(***************************************************************************)
(* C10  Writer streams: flushed bytes are final, and complete whenever no  *)
(* known-size master is open.  Monitor over the calls of one writer run.   *)
(* Reads per call: k, id, ty, val, kids, unknown, res, dest_len,           *)
(* dest_tail.  Keeps: what the destination holds, the open masters (id,    *)
(* known-size?) implied by the successful calls, the flat tags accepted.   *)
(* "Parses to exactly the tags written so far" is evaluated with the       *)
(* reader design ReaderCore (ParseAll) on the destination bytes.           *)
(***************************************************************************)
EXTENDS WriterObs

M0 == [ok |-> TRUE, why |-> "", live |-> TRUE, dest |-> <<>>, open |-> <<>>, acc |-> <<>>]
OpenIds(open) == [i \in 1..Len(open) |-> open[i].id]
AnyKnown(open) == \E i \in 1..Len(open) : open[i].known

Step(sch, allowIds, m, e) ==
  IF ~m.live \/ ~m.ok THEN m
  ELSE LET dest1 == m.dest \o e.dest_tail IN
  IF e.dest_len # Len(dest1) THEN Fail(m, "C10: the destination no longer holds what it was handed before (not a prefix of the final output)")
  ELSE IF e.res \in {"io", "panic"} THEN [m EXCEPT !.live = FALSE]
  ELSE IF e.res # "ok" THEN [m EXCEPT !.dest = dest1]
  ELSE
    LET open1 == CASE e.k \in {"start", "start_unknown_dep"} -> Append(m.open, [id |-> e.id, known |-> ~e.unknown /\ e.k = "start"])
                   [] e.k = "end" -> SubSeq(m.open, 1, Len(m.open) - 1)
                   [] e.k \in {"flush", "into_inner"} -> <<>>
                   [] OTHER -> m.open
        acc1 == m.acc \o TagsOf(e, OpenIds(m.open))
        m1 == [m EXCEPT !.dest = dest1, !.open = open1, !.acc = acc1]
    IN
    IF e.k = "flush" /\ "st" \in DOMAIN e /\ e.st.open # <<>> THEN Fail(m, "C10: flush() returned successfully with masters still open")
    ELSE IF AnyKnown(open1) THEN
      (IF e.dest_tail # <<>> THEN Fail(m, "C10: bytes were handed over while a known-size master is open") ELSE m1)
    ELSE IF e.k \in {"elem", "rawtag", "write_raw", "full", "end", "flush", "into_inner"} THEN
      \* read to its end, the destination yields the tags written so far; the End of an unknown-size master has no
      \* bytes of its own, so masters still open (and unknown-size masters already ended) are closed by the end of input
      LET p == ParseAll(sch, ReadCfg(allowIds, TRUE), dest1)
          want == acc1 \o [i \in 1..Len(open1) |-> Flat("end", open1[Len(open1) - i + 1].id, "master", <<>>)] IN
      IF FirstNonItem(p).res # "none" THEN Fail(m, "C10: what the destination holds does not parse cleanly although no known-size master is open")
      ELSE IF ~SameFlat(want, Items(p)) THEN Fail(m, "C10: what the destination holds does not parse to exactly the tags written so far")
      ELSE m1
    ELSE m1
=============================================================================
