------------------------------- MODULE P_C17 -------------------------------
(***************************************************************************)
(* C17  Memory use is bounded by the configured tag size limit, whatever   *)
(* the input claims.  Monitor over the calls of one run without buffered   *)
(* masters.  Reads: input (to decode the declared size at an item's /      *)
(* error's offset), the limit M and initial capacity of the configuration, *)
(* and per call: result class, ekind, pos/off, has_size, size, `peak`      *)
(* (peak growth of live heap bytes during the call, from the harness's     *)
(* counting allocator) and st.cap (buffer capacity, verif-hooks).          *)
(*   Slack  allowance for everything that is not the payload buffer:       *)
(*          error strings, the emission queue, the returned item           *)
(***************************************************************************)
EXTENDS ReaderObs

Slack == 65536
M0 == [ok |-> TRUE, why |-> "", cap |-> -1]
Lim(cfg) == Max(IF cfg.hasMax THEN WToNat(cfg.max) ELSE HUGE, Max(cfg.cap0, 16))
TooBig(cfg, sizeW) == cfg.hasMax /\ WLt(cfg.max, sizeW)

Step(sch, inp, cfg, m, e) ==
  IF ~m.ok \/ cfg.buffered # {} THEN m
  ELSE IF e.res = "panic" THEN Fail(m, "C17: a declared size caused a panic (arithmetic overflow?)")
  ELSE LET cap1 == IF "st" \in DOMAIN e THEN e.st.cap ELSE m.cap
           m1 == [m EXCEPT !.cap = cap1] IN
  IF e.ev # "next" THEN m1
  \* an element above the limit is never delivered, and its payload is never waited for
  ELSE IF e.res = "item" /\ e.kind # "end" /\ LET h == HeaderAt(inp, e.off) IN h.t = "ok" /\ ~h.unk /\ TooBig(cfg, h.sizeW)
       THEN Fail(m, "C17: an element declaring a size above the limit was emitted")
  ELSE IF e.res = "err" /\ e.ekind = "eof" /\ e.has_size /\ TooBig(cfg, e.size)
       THEN Fail(m, "C17: the payload of an element above the limit was requested before the size was rejected")
  \* rejected by a header check: nothing was allocated or read for the payload
  ELSE IF e.res = "err" /\ e.ekind \in {"too_big", "oversized", "bad_id", "hier", "bad_data"} /\ e.ekind # "bad_data" /\ m.cap >= 0 /\ cap1 # m.cap
       THEN Fail(m, "C17: the buffer grew although the element was rejected by a header check")
  ELSE IF e.res = "err" /\ e.ekind = "too_big" /\ e.peak > Slack
       THEN Fail(m, "C17: memory was allocated for an element whose declared size exceeds the limit")
  \* whatever happens: a small constant multiple of max(M, initial capacity)
  ELSE IF cfg.hasMax /\ Lim(cfg) < HUGE \div 4 /\ e.peak > 3 * Lim(cfg) + Slack
       THEN Fail(m, "C17: a call allocated more than a small multiple of max(limit, initial capacity)")
  \* (the same multiple for the buffer itself: a growth policy that rounds up - doubling, say - is within the statement)
  ELSE IF cfg.hasMax /\ Lim(cfg) < HUGE \div 4 /\ cap1 >= 0 /\ cap1 > 3 * Lim(cfg)
       THEN Fail(m, "C17: the buffer capacity exceeds a small multiple of max(limit, initial capacity)")
  \* within the limit, payload missing: at most the declared size
  ELSE IF e.res = "err" /\ e.ekind = "eof" /\ e.has_size /\ WToNat(e.size) < HUGE \div 4 /\ e.peak > 3 * Max(WToNat(e.size), Max(cfg.cap0, 16)) + Slack
       THEN Fail(m, "C17: an element with a missing payload cost more than its declared size")
  ELSE m1
=============================================================================
