------------------------------- MODULE P_C09 -------------------------------
(***************************************************************************)
(* C09  Writer output does not depend on how the same document is          *)
(* presented.  Relations over the runs of one case:                         *)
(*  present  the same document as Start/children/End, with any subtrees    *)
(*           collapsed into Full items, through the deprecated or the      *)
(*           option-based unknown-size call, into sinks that take the      *)
(*           bytes in arbitrary partial writes: byte-identical output;     *)
(*  options  the same document with explicit size widths / unknown size:   *)
(*           every requested width is honoured exactly and only size       *)
(*           fields differ (same ids and payloads in the same order).      *)
(* Reads res, dest_tail of calls; items (kind, id, val, off) of the strict *)
(* read-back of each output; the requested widths.                          *)
(***************************************************************************)
EXTENDS WriterObs

Present(runs) ==      \* runs: sequence of [tag, evs]
  IF \E i \in 1..Len(runs) : ~AllOk(runs[i].evs) THEN "C09: a presentation of a valid document was rejected"
  ELSE IF \E i \in 2..Len(runs) : DestOf(runs[i].evs, Len(runs[i].evs)) # DestOf(runs[1].evs, Len(runs[1].evs))
       THEN "C09: output bytes depend on the presentation (Full vs Start/End, deprecated vs option call, or partial writes of the sink)"
  ELSE ""
\* non-End items in document order
NonEnd(items) == SelectSeq(items, LAMBDA x : x.kind # "end")
WidthsOk(dest, items, widths) ==
  LET ne == NonEnd(items) IN
  Len(ne) = Len(widths) /\ \A i \in 1..Len(ne) :
     LET h == HeaderAt(dest, ne[i].off) IN
     /\ widths[i] > 0 => (h.t = "ok" /\ h.slen = widths[i] /\ ~h.unk)
     /\ widths[i] < 0 => (h.t = "ok" /\ h.unk /\ h.slen = 8)
Options(plain, opt) ==    \* each: [evs, rb (read-back event), widths]
  IF ~AllOk(opt.evs) THEN "C09: a valid size option was rejected"
  ELSE IF opt.rb.last.res # "none" \/ plain.rb.last.res # "none" THEN "C09: output written with size options does not read back cleanly"
  ELSE IF Len(opt.rb.items) # Len(plain.rb.items) \/ \E i \in 1..Len(opt.rb.items) : ~KidSame(opt.rb.items[i], plain.rb.items[i])
       THEN "C09: size options changed ids, payloads or their order"
  ELSE IF ~WidthsOk(opt.rb.input, opt.rb.items, opt.widths) THEN "C09: a requested size-field width (or unknown size) was not honoured exactly"
  ELSE ""
\* explicit widths at the edge of what they can hold: honoured exactly, or the element is rejected because the width cannot
\* represent its size as a known size - never widened silently, never rejected when it fits
Representable(e) == SizeField(Len(PayloadOf(e.ty, e.val)), e.width).t = "ok"
WidthExact(plain, opt) ==
  IF \E i \in 1..Len(opt.evs) : LET e == opt.evs[i] IN e.res = "ok" /\ e.k \in {"elem", "rawtag"} /\ e.width > 0 /\ ~Representable(e)
  THEN "C09: a size that the requested width cannot represent was accepted (the width cannot have been honoured)"
  ELSE IF AllOk(opt.evs) THEN Options(plain, opt)
  ELSE IF \E i \in 1..Len(opt.evs) : LET e == opt.evs[i] IN
            e.res # "ok" /\ ~(e.res = "size" /\ e.k \in {"elem", "rawtag"} /\ e.width > 0 /\ ~Representable(e))
       THEN "C09: a size option that can be honoured was rejected, or a call was rejected for another reason"
  ELSE ""
\* a Full item written with the unknown-size option (directly or through the deprecated call): if the writer accepts it,
\* unknown size has affected size fields only - the output reads back to the same tags as the plain presentation; the
\* alternative is a rejection of exactly that call as a size error (nothing may be dropped silently)
FullUnknown(plain, opt) ==
  IF AllOk(opt.evs) THEN
     (IF opt.rb.last.res # "none" \/ plain.rb.last.res # "none" THEN "C09: a Full item accepted with the unknown-size option does not read back cleanly"
      ELSE IF Len(opt.rb.items) # Len(plain.rb.items) \/ \E i \in 1..Len(opt.rb.items) : ~KidSame(opt.rb.items[i], plain.rb.items[i])
           THEN "C09: a Full item accepted with the unknown-size option lost or changed ids / payloads (unknown size must affect size fields only)"
      ELSE "")
  ELSE IF \E i \in 1..Len(opt.evs) : opt.evs[i].res # "ok" /\ ~(opt.evs[i].k = "full" /\ opt.evs[i].unknown /\ opt.evs[i].res = "size")
       THEN "C09: a call other than the Full item with the unknown-size option was rejected"
  ELSE ""
=============================================================================
