----------------------------- MODULE ReaderCore -----------------------------
(***************************************************************************)
(* Level 1 specification of TagIterator (src/tag_iterator.rs): the parse   *)
(* state machine without the buffer window (that is ReaderBuf).            *)
(*                                                                         *)
(* One total operator per critical section of the Rust code, named after   *)
(* it: CloseExhausted, PeekHeader (peek_valid_tag_header), ReadTag         *)
(* (read_tag), ReadNext (read_next), BufferMaster / RollUp                 *)
(* (buffer_master / roll_up_children), NextCall (Iterator::next),          *)
(* RecoverCall (try_recover).  `inp` is the sequence of bytes the source   *)
(* has delivered so far; `sch` the specification; `cfg` the configuration  *)
(* [allowId, allowHier, allowSize, hasMax, max, buffered, eofClose].       *)
(* State record r: [pos, stack, queue, docPath].                           *)
(*   stack entry: [id, unk, size, start, dstart, implied]                  *)
(* Results have the shape of the `next` events of recorded traces.         *)
(* Where a listed property fixes the behaviour the specification states    *)
(* it; elsewhere it follows the code (DESIGN.md, Appendix A).              *)
(***************************************************************************)
EXTENDS Schema, Vint, Payload

NoneRes == [res |-> "none"]
Item(kind, id, off, ty, val, kids) ==
  [res |-> "item", kind |-> kind, id |-> id, off |-> off, ty |-> ty, val |-> val, kids |-> kids]
ErrRec(ekind, pos, hasId, id, hasSize, size, hasPartial, partial, hasParent, parent) ==
  [res |-> "err", ekind |-> ekind, pos |-> pos, has_id |-> hasId, id |-> id, has_size |-> hasSize, size |-> size,
   has_partial |-> hasPartial, partial |-> partial, has_parent |-> hasParent, parent |-> parent]
EofErr(pos, hasId, id, hasSize, size, hasPartial, partial) ==
  ErrRec("eof", pos, hasId, id, hasSize, size, hasPartial, partial, FALSE, <<>>)
DataErr(ekind, pos, id, size) == ErrRec(ekind, pos, TRUE, id, size # <<>>, size, FALSE, <<>>, FALSE, <<>>)
Kid(kind, id, ty, val, kids) == [kind |-> kind, id |-> id, ty |-> ty, val |-> val, kids |-> kids]

\* grown: the largest payload size the buffer was ever enlarged for (ensure_capacity); the capacity of the
\* internal buffer is Max(initial capacity, 16, grown)
InitReader == [pos |-> 0, stack |-> <<>>, queue |-> <<>>, docPath |-> FALSE, grown |-> 0]
Capacity(cap0, r) == Max(Max(cap0, 16), r.grown)

(* ------------------------------ headers ------------------------------ *)
\* the id starting at absolute offset pos (byte pos+1 of inp); only delivered bytes are looked at
IdAt(inp, pos) ==
  IF pos >= Len(inp) THEN [t |-> "eof"]
  ELSE LET b == inp[pos + 1] IN
       IF b = 0 THEN [t |-> "ok", id |-> <<>>, len |-> 1]          \* code: id 0 of length 1 (then invalid id / raw)
       ELSE IF VLen(b) > Len(inp) - pos THEN [t |-> "eof"]
       ELSE [t |-> "ok", id |-> SubSeq(inp, pos + 1, pos + VLen(b)), len |-> VLen(b)]
HeaderAt(inp, pos) ==
  LET i == IdAt(inp, pos) IN
  IF i.t = "eof" THEN [t |-> "eof_id"]
  ELSE LET s == ReadVint(SubSeq(inp, pos + i.len + 1, Min(Len(inp), pos + i.len + 8))) IN
       IF s.t = "err" THEN [t |-> "bad_size", id |-> i.id]
       ELSE IF s.t = "more" THEN [t |-> "eof_size", id |-> i.id]
       ELSE [t |-> "ok", id |-> i.id, hlen |-> i.len + s.len, sizeW |-> s.val, slen |-> s.len,
             unk |-> IsAllOnes(s.val, s.len), size |-> WToNat(s.val)]

EndItem(e) == Item("end", e.id, e.start, "master", <<>>, <<>>)
RECURSIVE EndsOf(_, _)          \* End items of stack[from..], innermost first
EndsOf(stack, from) == IF from > Len(stack) THEN <<>> ELSE EndsOf(stack, from + 1) \o <<EndItem(stack[from])>>

\* implied ancestors of a mid-document start: unknown size, offsets 0
Implied(path) == [i \in 1..Len(path) |-> [id |-> path[i].id, unk |-> TRUE, size |-> 0, start |-> 0, dstart |-> 0, implied |-> TRUE]]

\* the strict hierarchy verdict (C11): judged against the chain left after closing unknown-size masters
HierOk(sch, stack, id) ==
  LET k == ClosedBy(sch, stack, id) IN PathAllows(sch, id, StackIds(SubSeq(stack, 1, Len(stack) - k)))
Oversized(stack, endOff) ==
  \E i \in 1..Len(stack) : ~stack[i].unk /\ stack[i].dstart + stack[i].size < endOff

PeekHeader(sch, cfg, inp, r) ==
  LET h == HeaderAt(inp, r.pos)  pos == r.pos IN
  IF h.t = "eof_id" THEN [t |-> "err", r |-> r, e |-> EofErr(pos, FALSE, <<>>, FALSE, <<>>, FALSE, <<>>)]
  ELSE IF h.t = "bad_size" THEN [t |-> "err", r |-> r, e |-> DataErr("bad_data", pos, h.id, <<>>)]
  ELSE IF h.t = "eof_size" THEN [t |-> "err", r |-> r, e |-> EofErr(pos, TRUE, h.id, FALSE, <<>>, FALSE, <<>>)]
  ELSE LET ty == TypeOf(sch, h.id) IN
  IF Numeric(ty) /\ h.size > 8 THEN [t |-> "err", r |-> r, e |-> DataErr("bad_data", pos, h.id, <<>>)]
  ELSE IF ~cfg.allowId /\ ~KnownId(sch, h.id) THEN [t |-> "err", r |-> r, e |-> DataErr("bad_id", pos, h.id, <<>>)]
  ELSE LET seed == ~cfg.allowHier /\ KnownId(sch, h.id) /\ ~r.docPath /\ AllIds(PathOf(sch, h.id))
           r1 == IF seed THEN [r EXCEPT !.stack = Implied(PathOf(sch, h.id)) \o @, !.docPath = TRUE] ELSE r
       IN
  IF ~cfg.allowHier /\ KnownId(sch, h.id) /\ r1.docPath /\ ~HierOk(sch, r1.stack, h.id)
  THEN [t |-> "err", r |-> r1,
        e |-> ErrRec("hier", -1, TRUE, h.id, FALSE, <<>>, FALSE, <<>>, r1.stack # <<>>,
                     IF r1.stack # <<>> THEN r1.stack[Len(r1.stack)].id ELSE <<>>)]
  \* (an unknown-size tag has no data size to overrun with, but its header must lie inside the known-size ancestors too;
  \* the error then carries size 0)
  ELSE IF ~cfg.allowSize /\ Oversized(r1.stack, pos + h.hlen + (IF h.unk THEN 0 ELSE h.size))
  THEN [t |-> "err", r |-> r1, e |-> DataErr("oversized", pos, h.id, IF h.unk THEN NatW8(0) ELSE h.sizeW)]
  ELSE IF cfg.hasMax /\ ~h.unk /\ WLt(cfg.max, h.sizeW)
  THEN [t |-> "err", r |-> r1, e |-> DataErr("too_big", pos, h.id, h.sizeW)]
  ELSE [t |-> "ok", r |-> r1, h |-> h, ty |-> ty]

(* ------------------------------ one tag ------------------------------ *)
\* result: [t |-> "err", r, e]  or  [t |-> "tag", r, it (the item), master (BOOLEAN), h]
ReadTag(sch, cfg, inp, r) ==
  LET start == r.pos  ph == PeekHeader(sch, cfg, inp, r) IN
  IF ph.t = "err" THEN ph
  ELSE LET h == ph.h  ty == ph.ty  d == start + h.hlen  r1 == [ph.r EXCEPT !.pos = d] IN
  IF ty = "master" THEN [t |-> "tag", r |-> r1, master |-> TRUE, h |-> h, it |-> Item("start", h.id, start, "master", <<>>, <<>>)]
  ELSE IF h.unk THEN [t |-> "err", r |-> r1, e |-> DataErr("bad_data", start, h.id, <<>>)]
  \* the payload is about to be read: only now - after every check of PeekHeader - may the buffer grow (C17)
  ELSE IF d + h.size > Len(inp)
       THEN [t |-> "err", r |-> [r1 EXCEPT !.grown = Max(@, h.size)], e |-> EofErr(start, TRUE, h.id, TRUE, h.sizeW, TRUE, SubSeq(inp, d + 1, Len(inp)))]
  ELSE LET pl == SubSeq(inp, d + 1, d + h.size)  dec == Decode(ty, pl)  r2 == [r1 EXCEPT !.pos = d + h.size, !.grown = Max(@, h.size)] IN
       IF dec.t = "err" THEN [t |-> "err", r |-> r2, e |-> ErrRec("tag_data", -1, TRUE, h.id, FALSE, <<>>, FALSE, <<>>, FALSE, <<>>)]
       ELSE [t |-> "tag", r |-> r2, master |-> FALSE, h |-> h,
             it |-> Item(IF ty = "raw" THEN "raw" ELSE "elem", h.id, start, ty, dec.val, <<>>)]

(* --------------------------- roll up (Full) --------------------------- *)
\* index of the End matching the Start at position i (depth-aware), or 0
RECURSIVE MatchEnd(_, _, _)
MatchEnd(items, j, depth) ==
  IF j > Len(items) THEN 0
  ELSE IF items[j].kind = "start" THEN MatchEnd(items, j + 1, depth + 1)
  ELSE IF items[j].kind = "end" THEN (IF depth = 0 THEN j ELSE MatchEnd(items, j + 1, depth - 1))
  ELSE MatchEnd(items, j + 1, depth)
RECURSIVE RollUp(_)
RollUp(items) ==          \* flat item sequence (Start .. End properly nested) -> sequence of kids
  IF items = <<>> THEN <<>>
  ELSE LET x == items[1] IN
    IF x.kind = "start" THEN
      LET e == MatchEnd(items, 2, 0) IN
      IF e = 0 THEN <<Kid("full", x.id, "master", <<>>, RollUp(Tail(items)))>>      \* unterminated: swallow the rest
      ELSE <<Kid("full", x.id, "master", <<>>, RollUp(SubSeq(items, 2, e - 1)))>> \o RollUp(Drop(items, e))
    ELSE <<Kid(x.kind, x.id, x.ty, x.val, x.kids)>> \o RollUp(Tail(items))

(* ----------------------------- read_next ------------------------------ *)
CloseExhausted(r) ==
  LET ex == {i \in 1..Len(r.stack) : ~r.stack[i].unk /\ r.pos >= r.stack[i].dstart + r.stack[i].size} IN
  IF ex = {} THEN r
  ELSE LET i == CHOOSE x \in ex : \A y \in ex : x <= y IN
       [r EXCEPT !.queue = @ \o EndsOf(r.stack, i), !.stack = SubSeq(@, 1, i - 1)]

RECURSIVE ReadNext(_, _, _, _)

ReadNext(sch, cfg, inp, r0) ==
  LET r == CloseExhausted(r0) IN
  IF r.pos >= Len(inp) THEN                                   \* nothing left at a tag boundary
    IF cfg.eofClose THEN [r EXCEPT !.queue = @ \o EndsOf(r.stack, 1), !.stack = <<>>] ELSE r
  ELSE LET rt == ReadTag(sch, cfg, inp, r) IN
    IF rt.t = "err" THEN [rt.r EXCEPT !.queue = @ \o <<rt.e>>]
    ELSE LET r1 == rt.r
             k  == ClosedBy(sch, r1.stack, rt.it.id)
             r2 == [r1 EXCEPT !.queue = @ \o EndsOf(r1.stack, Len(r1.stack) - k + 1),
                              !.stack = SubSeq(@, 1, Len(@) - k)]
         IN
      IF rt.master THEN
        LET m  == [id |-> rt.it.id, unk |-> rt.h.unk, size |-> rt.h.size, start |-> rt.it.off, dstart |-> r1.pos, implied |-> FALSE]
            r3 == [r2 EXCEPT !.stack = Append(@, m)] IN
        [r3 EXCEPT !.queue = Append(@, rt.it)]          \* (also the Start of a buffered master: it is assembled when it is emitted)
      ELSE [r2 EXCEPT !.queue = Append(@, rt.it)]

(* ----------------------------- public calls --------------------------- *)
\* A master requested as buffered is emitted as one Full item: its Start waits at the front of the queue until the
\* queue holds its End (masters with the same id may be nested inside) or an error, which is emitted in its place.
\* Reading never recurses into the assembly, so a run of buffered siblings is emitted one by one.
\* Index of that End / error in queue q (searching from j), 0 if neither is queued yet.
RECURSIVE EndOfBuffered(_, _, _, _)
EndOfBuffered(q, id, j, depth) ==
  IF j > Len(q) THEN 0
  ELSE IF q[j].res = "err" THEN j
  ELSE IF q[j].id = id /\ q[j].kind = "start" THEN EndOfBuffered(q, id, j + 1, depth + 1)
  ELSE IF q[j].id = id /\ q[j].kind = "end" THEN (IF depth = 0 THEN j ELSE EndOfBuffered(q, id, j + 1, depth - 1))
  ELSE EndOfBuffered(q, id, j + 1, depth)
FrontBuffered(cfg, r) == r.queue # <<>> /\ r.queue[1].res = "item" /\ r.queue[1].kind = "start" /\ r.queue[1].id \in cfg.buffered
\* [ready, r]: ready = the front of the queue can be emitted; not ready = the end of the buffered master at the front has
\* not been read and the input has nothing more (for now): everything read so far stays queued and a later call continues
RECURSIVE Assemble(_, _, _, _)
Assemble(sch, cfg, inp, r) ==
  IF ~FrontBuffered(cfg, r) THEN [ready |-> TRUE, r |-> r]
  ELSE LET st == r.queue[1]  e == EndOfBuffered(r.queue, st.id, 2, 0) IN
    IF e = 0 THEN
      LET r2 == ReadNext(sch, cfg, inp, r) IN
      IF Len(r2.queue) = Len(r.queue) THEN [ready |-> FALSE, r |-> r2] ELSE Assemble(sch, cfg, inp, r2)
    ELSE IF r.queue[e].res = "err" THEN [ready |-> TRUE, r |-> [r EXCEPT !.queue = Drop(@, e - 1)]]
    ELSE [ready |-> TRUE,
          r |-> [r EXCEPT !.queue = <<Item("full", st.id, st.off, "master", <<>>, RollUp(SubSeq(@, 2, e - 1)))>> \o Drop(@, e)]]

NextCall(sch, cfg, inp, r) ==
  LET r1 == IF r.queue = <<>> THEN ReadNext(sch, cfg, inp, r) ELSE r
      a  == Assemble(sch, cfg, inp, r1) IN
  IF ~a.ready \/ a.r.queue = <<>> THEN [res |-> NoneRes, r |-> a.r]
  ELSE [res |-> a.r.queue[1], r |-> [a.r EXCEPT !.queue = Tail(@)]]

Enlarge(stack, d) == [i \in 1..Len(stack) |->
   IF stack[i].unk THEN stack[i] ELSE [stack[i] EXCEPT !.size = Min(HUGE, @ + d)]]
RECURSIVE RecoverScan(_, _, _, _, _)
RecoverScan(sch, cfg, inp, r, orig) ==
  IF r.pos >= Len(inp) THEN [ok |-> FALSE, r |-> r, e |-> EofErr(r.pos, FALSE, <<>>, FALSE, <<>>, FALSE, <<>>)]
  ELSE LET r1 == [r EXCEPT !.pos = @ + 1]  ph == PeekHeader(sch, cfg, inp, r1) IN
       IF ph.t = "ok" THEN [ok |-> TRUE, r |-> [ph.r EXCEPT !.stack = Enlarge(@, ph.r.pos - orig)]]
       ELSE RecoverScan(sch, cfg, inp, ph.r, orig)
RecoverCall(sch, cfg, inp, r) == RecoverScan(sch, cfg, inp, r, r.pos)

(* whole parse: results of successive next() calls up to and including the first none / error *)
RECURSIVE ParseFrom(_, _, _, _, _, _)
ParseFrom(sch, cfg, inp, r, acc, fuel) ==
  IF fuel = 0 THEN acc
  ELSE LET c == NextCall(sch, cfg, inp, r) IN
       IF c.res.res # "item" THEN Append(acc, c.res)
       ELSE ParseFrom(sch, cfg, inp, c.r, Append(acc, c.res), fuel - 1)
ParseAll(sch, cfg, inp) == ParseFrom(sch, cfg, inp, InitReader, <<>>, 3 * Len(inp) + 64)
=============================================================================
