------------------------------- MODULE Bytes -------------------------------
(***************************************************************************)
(* Words: big-endian byte sequences.  Every wide number of ebml-iterable   *)
(* (element ids, u64 / i64 / f64 payload values, declared sizes) is a word *)
(* in this specification, in REPLAY lines and in recorded traces, because  *)
(* TLC integers are 32 bit.  Offsets and lengths of inputs are ordinary    *)
(* integers (< 2^30).                                                      *)
(***************************************************************************)
EXTENDS Integers, Sequences, FiniteSets

Byte == 0..255
HUGE == 1073741824            \* 2^30: "does not fit an offset"; only ever compared

Min(a, b) == IF a < b THEN a ELSE b
Max(a, b) == IF a > b THEN a ELSE b

\* position of the highest set bit of a byte b \in 1..255
Log2(b) == CASE b >= 128 -> 7 [] b >= 64 -> 6 [] b >= 32 -> 5 [] b >= 16 -> 4
             [] b >= 8 -> 3 [] b >= 4 -> 2 [] b >= 2 -> 1 [] OTHER -> 0

Zeros(n)   == [i \in 1..n |-> 0]
Fill(n, b) == [i \in 1..n |-> b]
IsBytes(s) == \A i \in 1..Len(s) : s[i] \in Byte

Drop(s, n) == SubSeq(s, n + 1, Len(s))          \* s without its first n elements
Take(s, n) == SubSeq(s, 1, Min(n, Len(s)))
Last(s)    == s[Len(s)]
Front(s)   == SubSeq(s, 1, Len(s) - 1)

IsPrefixOf(p, s) == Len(p) <= Len(s) /\ SubSeq(s, 1, Len(p)) = p

\* number of leading zero bytes
RECURSIVE LeadZ(_, _)
LeadZ(w, i) == IF i > Len(w) THEN Len(w) ELSE IF w[i] # 0 THEN i - 1 ELSE LeadZ(w, i + 1)
WStrip(w)  == Drop(w, LeadZ(w, 1))              \* canonical form: no leading zero byte
WPad(w, n) == IF Len(w) >= n THEN w ELSE Zeros(n - Len(w)) \o w
W8(w)      == WPad(WStrip(w), 8)                \* canonical 8-byte form of a value < 2^64
WEq(a, b)  == WStrip(a) = WStrip(b)

\* number of significant bits (0 for zero)
WBitLen(w) == LET s == WStrip(w) IN IF s = <<>> THEN 0 ELSE 8 * (Len(s) - 1) + Log2(s[1]) + 1

\* lexicographic comparison of equally long byte sequences: -1, 0, 1
RECURSIVE LexCmp(_, _, _)
LexCmp(a, b, i) == IF i > Len(a) THEN 0
                   ELSE IF a[i] < b[i] THEN -1 ELSE IF a[i] > b[i] THEN 1 ELSE LexCmp(a, b, i + 1)
WCmp(a, b) == LET x == WStrip(a)  y == WStrip(b) IN
              IF Len(x) < Len(y) THEN -1 ELSE IF Len(x) > Len(y) THEN 1 ELSE LexCmp(x, y, 1)
WLt(a, b) == WCmp(a, b) < 0
WLe(a, b) == WCmp(a, b) <= 0

\* saturating conversion to a TLC integer: exact below 2^30, HUGE otherwise
RECURSIVE ToNatAcc(_, _, _)
ToNatAcc(s, i, acc) == IF i > Len(s) THEN acc
                       ELSE IF acc >= 4194304 THEN HUGE
                       ELSE ToNatAcc(s, i + 1, acc * 256 + s[i])
WToNat(w) == LET s == WStrip(w) IN IF Len(s) > 4 THEN HUGE ELSE Min(HUGE, ToNatAcc(s, 1, 0))

\* n \in 0..2^31-1 as a word of exactly k bytes (k <= 8; high bytes zero)
RECURSIVE NatDigits(_, _)
NatDigits(n, k) == IF k = 0 THEN <<>> ELSE Append(NatDigits(n \div 256, k - 1), n % 256)
NatToW(n, k) == NatDigits(n, k)
NatW8(n)     == NatDigits(n, 8)

(***************************************************************************)
(* Bit views (most significant bit first), used for the signed and float   *)
(* codecs where arithmetic on bytes would hide the meaning.                *)
(***************************************************************************)
ByteBits(b) == << (b \div 128) % 2, (b \div 64) % 2, (b \div 32) % 2, (b \div 16) % 2,
                  (b \div 8) % 2, (b \div 4) % 2, (b \div 2) % 2, b % 2 >>
RECURSIVE WBitsR(_, _)
WBitsR(w, i) == IF i > Len(w) THEN <<>> ELSE ByteBits(w[i]) \o WBitsR(w, i + 1)
WBits(w) == WBitsR(w, 1)                         \* Len = 8 * Len(w)
BitsByte(bs, i) == 128*bs[i] + 64*bs[i+1] + 32*bs[i+2] + 16*bs[i+3] + 8*bs[i+4] + 4*bs[i+5] + 2*bs[i+6] + bs[i+7]
BitsW(bs) == [k \in 1..(Len(bs) \div 8) |-> BitsByte(bs, 8 * (k - 1) + 1)]   \* Len(bs) multiple of 8
RECURSIVE BitsNatAcc(_, _, _)
BitsNatAcc(bs, i, acc) == IF i > Len(bs) THEN acc ELSE BitsNatAcc(bs, i + 1, 2 * acc + bs[i])
BitsNat(bs) == BitsNatAcc(bs, 1, 0)              \* Len(bs) <= 30
AllBits(bs, v) == \A i \in 1..Len(bs) : bs[i] = v
=============================================================================
