----------------------------- MODULE Deviations -----------------------------
(***************************************************************************)
(* Named deviations: known, unrepaired divergences of the code from a      *)
(* listed property.  Each has a precondition that pins down the failing    *)
(* situation and a deliberately loose postcondition.  A deviation is never *)
(* enabled in a model-checking configuration; in trace validation it is    *)
(* tried only after the property specification has rejected a case, and    *)
(* only if known_findings.txt lists it as `known` for the property being   *)
(* checked (the check driver passes one environment variable per listed    *)
(* name).  A case accepted through a deviation is reported as              *)
(* KNOWN-FINDING, never silently.                                           *)
(***************************************************************************)
EXTENDS ReaderObs, IOUtils

Listed(name) == name \in DOMAIN IOEnv

(* DEV_BUFFERED_EOF_NOCLOSE (C08).  With end-of-stream closing disabled the iterator cannot tell  *)
(* the end of the input from a pause of the source.  When the data (so far) ends inside a master  *)
(* that was requested as buffered it returns None and keeps what it has read for a later call    *)
(* (which is what C04 demands); if that was the end of the input, the buffered parse "ends        *)
(* cleanly" like the unbuffered one but never hands out the started master and the children read *)
(* so far, which the unbuffered parse does emit.  first: the first unbuffered item that is        *)
(* missing from the buffered run.                                                                  *)
BufferedEofNoClose(cfg, e, first) ==
  /\ ~cfg.eofClose /\ cfg.buffered # {}
  /\ e.res = "none"
  /\ first.kind = "start" /\ first.id \in cfg.buffered

(* DEV_ASYNC_STRADDLE (C20) - repaired in /repo (fix: the async iterator took the end of the   *)
(* bytes received so far for the end of the input); no longer listed in known_findings.txt, so  *)
(* this action is never enabled and a straddle failure is a violation again.  Kept as the       *)
(* description of the old behaviour (MC_Async, Wrapper = "one_read"):                            *)
(* TagIteratorAsync performed exactly one source read per next()                                *)
(* and then asks the inner blocking iterator, which treats "no more bytes in the cursor" as     *)
(* end of input: a tag that is not completely inside the bytes read so far yields               *)
(* UnexpectedEOF / an early None, and an input that ends in an error repeats it forever.        *)
AsyncStraddle(inputLen, firstReadLen) == firstReadLen < inputLen
=============================================================================
