------------------------------- MODULE Schema -------------------------------
(***************************************************************************)
(* Specifications (schemas) and the hierarchy rules of ebml-iterable:      *)
(*   - the declarative meaning of a declared path as a pattern over the    *)
(*     chain of open masters (Matches: property C11),                       *)
(*   - an algorithmic single-pass matcher (MatchAlgo) proved equal to it   *)
(*     on a bounded universe by MC_PathMatch,                               *)
(*   - which open unknown-size masters an element closes (ClosedBy: C07).  *)
(* A schema is a sequence of entries [id, ty, path]; a path is a sequence  *)
(* of parts [k |-> "id", id |-> word] / [k |-> "glob", min, max] with      *)
(* max = -1 for "unbounded".  The schema is an explicit parameter so that  *)
(* the same operators serve the bounded models (constant schema) and the   *)
(* trace specifications (schema logged in each case event).                *)
(***************************************************************************)
EXTENDS Bytes

Types == {"master", "uint", "int", "utf8", "bin", "float"}
Numeric(ty) == ty \in {"uint", "int", "float"}

KnownId(sch, id) == \E i \in 1..Len(sch) : sch[i].id = id
Entry(sch, id)   == sch[CHOOSE i \in 1..Len(sch) : sch[i].id = id]
TypeOf(sch, id)  == IF KnownId(sch, id) THEN Entry(sch, id).ty ELSE "raw"
PathOf(sch, id)  == IF KnownId(sch, id) THEN Entry(sch, id).path ELSE <<>>
IsMaster(sch, id) == TypeOf(sch, id) = "master"
IsRoot(sch, id)   == KnownId(sch, id) /\ PathOf(sch, id) = <<>>
HasGlob(p)        == \E i \in 1..Len(p) : p[i].k = "glob"
IsGlobal(sch, id) == HasGlob(PathOf(sch, id))
AllIds(p)         == \A i \in 1..Len(p) : p[i].k = "id"
MaxOr(m, dflt)    == IF m < 0 THEN dflt ELSE m

(* ------------------- declarative path semantics (C11) ------------------- *)
\* p: path pattern; c: chain of open master ids, outermost first
RECURSIVE Matches(_, _)
Matches(p, c) ==
  IF p = <<>> THEN c = <<>>
  ELSE IF p[1].k = "id" THEN c # <<>> /\ c[1] = p[1].id /\ Matches(Tail(p), Tail(c))
  ELSE \E n \in p[1].min .. Min(Len(c), MaxOr(p[1].max, Len(c))) : Matches(Tail(p), Drop(c, n))
PathAllows(sch, id, c) == Matches(PathOf(sch, id), c)

(* ------- single-pass matcher: simulate the pattern as an NFA ------------ *)
(* A position <<i, n>> means: parts 1..i-1 are matched, and if part i is a  *)
(* placeholder, n masters have been given to it so far (n = 0 otherwise).   *)
\* epsilon closure: a placeholder whose minimum is met may be left
RECURSIVE Close(_, _)
Close(p, S) ==
  LET more == {<<q[1] + 1, 0>> : q \in {r \in S : r[1] <= Len(p) /\ p[r[1]].k = "glob" /\ r[2] >= p[r[1]].min}}
  IN IF more \subseteq S THEN S ELSE Close(p, S \cup more)
StepPos(p, S, m) ==        \* consume one master id m
  {<<q[1] + 1, 0>> : q \in {r \in S : r[1] <= Len(p) /\ p[r[1]].k = "id" /\ p[r[1]].id = m}} \cup
  {<<q[1], q[2] + 1>> : q \in {r \in S : r[1] <= Len(p) /\ p[r[1]].k = "glob" /\ (p[r[1]].max < 0 \/ r[2] < p[r[1]].max)}}
RECURSIVE RunPos(_, _, _, _)
RunPos(p, S, c, i) == IF i > Len(c) THEN S ELSE RunPos(p, Close(p, StepPos(p, S, c[i])), c, i + 1)
MatchAlgo(p, c) == \E q \in RunPos(p, Close(p, {<<1, 0>>}), c, 1) : q[1] = Len(p) + 1

(* ---------------- closing of unknown-size masters (C07) ----------------- *)
\* e directly ends the unknown-size master m: root element, sibling / same id, or an ancestor's id
EndsDirectly(sch, m, e) ==
  \/ IsRoot(sch, e)
  \/ PathOf(sch, e) = PathOf(sch, m)
  \/ \E i \in 1..Len(PathOf(sch, m)) : PathOf(sch, m)[i].k = "id" /\ PathOf(sch, m)[i].id = e
\* stack: sequence of records with fields id and unk (unknown size); result: how many masters at
\* the top of the stack the element e closes.  Only the maximal run of unknown-size masters at the
\* top can be closed by an element; everything from the lowest directly-ended master upwards goes
\* ("closes in that way an unknown-size master directly enclosing it").  Elements with an id
\* outside the specification never close anything; a global element (Void, Crc32, ...) does not
\* either, simply because it is neither a root, nor has the master's declared path, nor is an
\* ancestor - unless it is declared with literally the same (global) path as the master, in
\* which case the code treats it as a sibling (the properties are silent; the code is followed).
TopRun(stack) == {j \in 1..Len(stack) : \A k \in j..Len(stack) : stack[k].unk}
ClosedBy(sch, stack, e) ==
  LET hits == {j \in TopRun(stack) : EndsDirectly(sch, stack[j].id, e)} IN
  IF ~KnownId(sch, e) \/ hits = {} THEN 0
  ELSE Len(stack) - (CHOOSE j \in hits : \A k \in hits : j <= k) + 1
StackIds(stack) == [i \in 1..Len(stack) |-> stack[i].id]

(* what the derive macro guarantees about a specification (used as an assumption on schemas) *)
WellFormedSchema(sch) ==
  /\ \A i, j \in 1..Len(sch) : sch[i].id = sch[j].id => i = j
  /\ \A i \in 1..Len(sch) : LET p == sch[i].path IN
       /\ \A k \in 1..Len(p) : p[k].k = "id" => IsMaster(sch, p[k].id)
       /\ \A k \in 1..Len(p) : p[k].k = "glob" => p[k].max # 0
       /\ \A k \in 1..(Len(p) - 1) : ~(p[k].k = "glob" /\ p[k + 1].k = "glob")
=============================================================================
