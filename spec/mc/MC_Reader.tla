------------------------------ MODULE MC_Reader ------------------------------
(***************************************************************************)
(* Bounded model of the reader design: TLC explores *every* byte stream    *)
(* over the alphabet Sigma up to MaxLen (grown byte by byte by the          *)
(* environment), under every configuration in Cfgs, stepping the Level 1   *)
(* design ReaderCore one public call at a time, and checks that the design *)
(* satisfies the property specifications P_Cxx (Level 0) - the same         *)
(* monitors / relations that give the verdict on traces of the real code.  *)
(* Schema: S3 (Schemas.tla).                                                *)
(***************************************************************************)
EXTENDS ReaderCore, Schemas, TLC
CONSTANTS MaxLen,        \* longest input
          Sigma,         \* input alphabet (set of bytes)
          AllowSets,     \* subset of 0..7: bit 1 = invalid ids, 2 = hierarchy, 4 = oversized tolerated
          BufSets,       \* set of buffered-id sets
          EofCloses,     \* subset of BOOLEAN
          Maxes          \* set of size limits: <<>> for "none", else a word
VARIABLES inp, cfg, r, out, phase
vars == <<inp, cfg, r, out, phase>>

P03 == INSTANCE P_C03
P05 == INSTANCE P_C05
P06 == INSTANCE P_C06
P07 == INSTANCE P_C07
P08 == INSTANCE P_C08
P12 == INSTANCE P_C12
P13 == INSTANCE P_C13
P17 == INSTANCE P_C17

\* values for the constants that a .cfg file cannot express (sets of tuples): use  Maxes <- Maxes_2  etc.
Maxes_none == {<<>>}
Maxes_2 == {<<0, 0, 0, 0, 0, 0, 0, 2>>}
Maxes_both == Maxes_none \cup Maxes_2
Buf_none == {{}}
Buf_B == {{B}}
Buf_noneB == {{}, {B}}
Buf_some == {{B}, {A, B}, {R2}}
Buf_all == {{}, {A}, {B}, {A, B}, {B, Cc}, {R2}}
Bit(n, b) == (n \div b) % 2 = 1
Cfgs == {[allowId |-> Bit(a, 1), allowHier |-> Bit(a, 2), allowSize |-> Bit(a, 4), hasMax |-> mx # <<>>, max |-> mx,
          buffered |-> bs, eofClose |-> ec, cap0 |-> 16] : a \in AllowSets, bs \in BufSets, ec \in EofCloses, mx \in Maxes}
Strict(c) == ~c.allowId /\ ~c.allowHier /\ ~c.allowSize

Done == out # <<>> /\ out[Len(out)].res # "item"
Init == inp = <<>> /\ cfg \in Cfgs /\ r = InitReader /\ out = <<>> /\ phase = "grow"
Grow == phase = "grow" /\ Len(inp) < MaxLen /\ \E b \in Sigma : inp' = Append(inp, b) /\ UNCHANGED <<cfg, r, out, phase>>
Start == phase = "grow" /\ phase' = "run" /\ UNCHANGED <<inp, cfg, r, out>>
Call == /\ phase = "run" /\ ~Done
        /\ LET s == NextCall(S3, cfg, inp, r) IN r' = s.r /\ out' = Append(out, s.res @@ [ev |-> "next"])
        /\ UNCHANGED <<inp, cfg, phase>>
\* after the end: one more call (fused / repeated error), recorded in phase "after"
After == /\ phase = "run" /\ Done
         /\ LET s == NextCall(S3, cfg, inp, r) IN r' = s.r /\ out' = Append(out, s.res @@ [ev |-> "next"])
         /\ phase' = "after" /\ UNCHANGED <<inp, cfg>>
Next == Grow \/ Start \/ Call \/ After
Spec == Init /\ [][Next]_vars

(* fold a monitor over the results so far *)
RECURSIVE Fold03(_, _)  RECURSIVE Fold05(_, _)  RECURSIVE Fold06(_, _)  RECURSIVE Fold07(_, _)
Fold03(m, i) == IF i > Len(out) THEN m ELSE Fold03(P03!Step(S3, inp, cfg, m, out[i]), i + 1)
Fold05(m, i) == IF i > Len(out) THEN m ELSE Fold05(P05!Step(S3, inp, cfg, m, out[i]), i + 1)
Fold06(m, i) == IF i > Len(out) THEN m ELSE Fold06(P06!Step(S3, inp, cfg, m, out[i]), i + 1)
Fold07(m, i) == IF i > Len(out) THEN m ELSE Fold07(P07!Step(S3, inp, cfg, m, out[i]), i + 1)
Show(m) == m.ok \/ (PrintT(<<m.why, inp, cfg, out>>) /\ FALSE)
AtEnd == phase = "after"
\* the slice source: everything delivered and end of file seen once the parse is over
M05 == [P05!M0 EXCEPT !.delivered = Len(inp), !.srcEof = TRUE]

Inv_C03 == AtEnd => Show(Fold03(P03!M0, 1))
Inv_C05 == AtEnd => Show(Fold05(M05, 1))
Inv_C06 == (AtEnd /\ Strict(cfg)) => Show(Fold06(P06!M0, 1))
Inv_C07 == AtEnd => Show(Fold07(P07!M0, 1))
TypeOK  == /\ r.pos \in 0..Len(inp) /\ Len(out) <= 2 * Len(inp) + 6
           /\ \A i \in 1..Len(out) : out[i].res \in {"item", "err", "none"}
\* buffered parse = flat parse rolled up (both evaluated on the same input)
FlatRun == ParseAll(S3, [cfg EXCEPT !.buffered = {}], inp)
Inv_C08 == (AtEnd /\ cfg.buffered # {}) =>
             LET why == P08!Rel(FlatRun, out) IN
             /\ why = "" \/ (PrintT(<<why, inp, cfg, out, FlatRun>>) /\ FALSE)
             /\ P08!OnlyRequested(out, cfg)
\* tolerance: own kind only; strict items are a prefix of the tolerant ones (inputs starting at a root element)
StrictRun == ParseAll(S3, [cfg EXCEPT !.allowId = FALSE, !.allowHier = FALSE, !.allowSize = FALSE], inp)
StartsAtRoot == inp # <<>> /\ LET i == IdAt(inp, 0) IN i.t = "ok" /\ IsRoot(S3, i.id)
Inv_C13 == AtEnd =>
             /\ LET why == P13!RunOk(cfg, out) IN why = "" \/ (PrintT(<<why, inp, cfg, out>>) /\ FALSE)
             /\ StartsAtRoot => LET why == P13!StrictPrefix(StrictRun, out) IN why = "" \/ (PrintT(<<why, inp, cfg, out, StrictRun>>) /\ FALSE)
\* truncation: for every valid document and every cut
Inv_C12 == (AtEnd /\ Strict(cfg) /\ cfg.buffered = {} /\ cfg.eofClose /\ out[Len(out) - 1].res = "none") =>
             \A c \in 0..Len(inp) :
               LET why == P12!Rel(S3, inp, out, ParseAll(S3, cfg, Take(inp, c)), c) IN
               why = "" \/ (PrintT(<<why, inp, c, out, ParseAll(S3, cfg, Take(inp, c))>>) /\ FALSE)
\* C02: what the strict reader accepts (from a root element on), the writer accepts, and the re-written bytes read as the same tags
W == INSTANCE Writer
ItemOp(x) == [k |-> x.kind, id |-> x.id, ty |-> x.ty, val |-> x.val, width |-> 0, unknown |-> FALSE, kids |-> <<>>]
RECURSIVE WriteItems(_, _, _)
WriteItems(wr, its, i) == IF i > Len(its) THEN [res |-> "ok", w |-> wr]
                          ELSE LET s == W!WriteCall(S3, wr, ItemOp(its[i])) IN IF s.res # "ok" THEN s ELSE WriteItems(s.w, its, i + 1)
Inv_C02 == (AtEnd /\ Strict(cfg) /\ cfg.buffered = {} /\ cfg.eofClose /\ StartsAtRoot /\ out[Len(out) - 1].res = "none") =>
   LET its == P12!Items(out)
       s == WriteItems(W!InitWriter, its, 1)
       fl == IF s.res = "ok" THEN W!WriteCall(S3, s.w, [k |-> "flush", id |-> <<>>, ty |-> "", val |-> <<>>, width |-> 0, unknown |-> FALSE, kids |-> <<>>]) ELSE s
       back == IF fl.res = "ok" THEN ParseAll(S3, cfg, fl.w.dest) ELSE <<>>
   IN \/ /\ fl.res = "ok" /\ P12!FirstNonItem(back).res = "none"
         /\ Len(P12!Items(back)) = Len(its) /\ \A i \in 1..Len(its) : P12!KidSame(P12!Items(back)[i], its[i])
      \/ (PrintT(<<"C02 fixpoint fails", inp, out, fl.res, back>>) /\ FALSE)
\* C17 (design level): the buffer only ever grows for a payload that passed every header check, and never
\* beyond max(limit, initial capacity); the model's results carry no allocation, so peak = 0 and cap = Capacity
CapBound == cfg.hasMax => Capacity(cfg.cap0, r) <= Max(WToNat(cfg.max), Max(cfg.cap0, 16))
RECURSIVE Fold17(_, _)
Fold17(m, i) == IF i > Len(out) THEN m ELSE Fold17(P17!Step(S3, inp, cfg, m, out[i] @@ [peak |-> 0]), i + 1)
Inv_C17 == CapBound /\ (AtEnd => Show(Fold17(P17!M0, 1)))
\* every terminal behaviour, for replay into the real iterator (MC_Reader_Gen configurations)
Kinds == [i \in 1..Len(out) |-> IF out[i].res = "item" THEN out[i].kind ELSE IF out[i].res = "err" THEN out[i].ekind ELSE "none"]
Emit == AtEnd => PrintT(ToString(<<"REPLAY", inp, cfg.allowId, cfg.allowHier, cfg.allowSize, cfg.eofClose, cfg.buffered, Kinds>>))
=============================================================================
