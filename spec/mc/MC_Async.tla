------------------------------ MODULE MC_Async ------------------------------
(***************************************************************************)
(* C20, design level.  TagIteratorAsync (src/nonblocking.rs) is an inner   *)
(* blocking iterator over an in-memory cursor that only grows; the inner   *)
(* iterator takes the end of the cursor for the end of the input.          *)
(*   AsyncNext == while nothing is queued in the inner iterator and the    *)
(*                bytes of its next item have not all been received        *)
(*                (Received): one more source read, appended to the cursor *)
(*                (stop when the source is exhausted);                     *)
(*                then one inner next() over what the cursor holds.        *)
(* Received mirrors next_item_received(): header complete; an element      *)
(* needs its payload; an unbuffered master only its header; a buffered     *)
(* known-size master its whole extent *and* the item after it (the inner   *)
(* iterator finds a master's end while reading the following tag); a       *)
(* buffered unknown-size master needs the rest of the source.              *)
(* Refinement target: the results equal those of the blocking iterator     *)
(* over the same bytes (relation P_C04), ending once - for every split of  *)
(* the input into reads and every buffered set.                            *)
(* Wrapper = "one_read" is the code before its repair (one read per call,  *)
(* then the inner iterator, whatever has arrived): TLC then produces the   *)
(* counterexample (a tag straddling two reads; premature Ends) - kept for  *)
(* documentation, not part of the check.  Wrapper = "no_follow" drops the  *)
(* "item after a buffered master" clause: also refuted by TLC.             *)
(* UseDocs = TRUE replaces the enumeration of all short inputs by a fixed  *)
(* set of longer documents (DocSet: corrupt headers that run past the end  *)
(* of a buffered master, nested and adjacent buffered masters) with every  *)
(* split into reads; Wrapper = "no_lookahead" (a buffered master counts as *)
(* received with its extent and the item after it, although a child's      *)
(* header may reach up to 15 bytes past the extent) is refuted there.      *)
(***************************************************************************)
EXTENDS ReaderCore, Schemas, TLC
CONSTANTS MaxLen, Sigma, Wrapper, UseDocs
VARIABLES inp, avail, r, out, phase, nreads, buf
vars == <<inp, avail, r, out, phase, nreads, buf>>
BufSets == {{}, {B}, {A}, {A, B}}
P04 == INSTANCE P_C04
Cfg == [allowId |-> FALSE, allowHier |-> FALSE, allowSize |-> FALSE, hasMax |-> FALSE, max |-> <<>>, buffered |-> buf, eofClose |-> TRUE, cap0 |-> 16]
Blocking == ParseAll(S3, Cfg, inp)

\* a tag header spans at most 16 bytes: a child header that starts on the last byte of a buffered master may reach 15 bytes past it
Reach == 15
RECURSIVE Received(_, _)
Received(data, pos) ==
  LET h == HeaderAt(data, pos) IN
  IF h.t \in {"eof_id", "eof_size"} THEN FALSE
  ELSE IF h.t = "bad_size" THEN TRUE
  ELSE LET master == TypeOf(S3, h.id) = "master"  have == Len(data) - pos - h.hlen IN
    IF master /\ h.id \notin buf THEN TRUE
    ELSE IF h.unk THEN ~master
    ELSE IF ~master THEN have >= h.size
    ELSE IF have < h.size + (IF Wrapper = "no_lookahead" THEN 0 ELSE Reach) THEN FALSE
    ELSE IF Wrapper = "no_follow" THEN TRUE
    ELSE Received(data, pos + h.hlen + h.size)

DocSet == { <<129, 129, 32, 137, 128, 137, 128, 137, 128>>,            \* A(1 byte){ a 3-byte id reaching past A's end } P P P
            <<129, 131, 130, 129, 1, 137, 128, 139, 128, 139, 128>>,  \* A{B(1 byte){ an 8-byte id reaching past B and A }} ...
            <<129, 134, 130, 130, 138, 128, 137, 128, 139, 128>>,     \* A{B{Q} P} R2
            <<129, 132, 130, 128, 130, 128, 139, 128>>,               \* A{B{} B{}} R2: adjacent (empty) buffered masters
            <<129, 133, 130, 131, 131, 129, 64, 137, 128>>,           \* A{B{C(1 byte){ 2-byte id cut by C's end }}} P
            <<139, 129, 16, 139, 128, 129, 128>> }                     \* R2(1 byte){ a 4-byte id reaching past it } R2 A
\* the wrapper may stop reading with a bytes received
Ready(a) == r.queue # <<>> \/ Received(Take(inp, a), r.pos) \/ a = Len(inp)

Init == IF UseDocs THEN inp \in DocSet /\ avail = 0 /\ r = InitReader /\ out = <<>> /\ phase = "run" /\ nreads = 0 /\ buf \in BufSets \cup {{R2}}
        ELSE inp = <<>> /\ avail = 0 /\ r = InitReader /\ out = <<>> /\ phase = "grow" /\ nreads = 0 /\ buf = {}
Grow == phase = "grow" /\ Len(inp) < MaxLen /\ \E b \in Sigma : inp' = Append(inp, b) /\ UNCHANGED <<avail, r, out, phase, nreads, buf>>
Start == phase = "grow" /\ phase' = "run" /\ buf' \in BufSets /\ UNCHANGED <<inp, avail, r, out, nreads>>
\* the comparison ends with the first result that is not an item (an error may repeat for ever, here as in the blocking iterator)
Done == out # <<>> /\ out[Len(out)].res # "item"
Ask(a1) == LET s == NextCall(S3, Cfg, Take(inp, a1), r) IN r' = s.r /\ out' = Append(out, s.res) /\ avail' = a1
\* one call of next(): the source hands over its bytes in arbitrary pieces
AsyncNext == /\ phase = "run" /\ ~Done
             /\ IF Wrapper = "one_read" THEN \E a1 \in avail..Len(inp) : Ask(a1) /\ nreads' = nreads + 1
                ELSE IF Ready(avail) THEN Ask(avail) /\ UNCHANGED nreads          \* no read at all
                ELSE \E a1 \in (avail + 1)..Len(inp) : Ready(a1) /\ Ask(a1) /\ nreads' = nreads + 1   \* the first piece boundary at which it is ready
             /\ UNCHANGED <<inp, phase, buf>>
Next == Grow \/ Start \/ AsyncNext
Spec == Init /\ [][Next]_vars
Refines == (phase = "run" /\ Done) =>
   LET why == P04!Rel(Blocking, out) IN why = "" \/ (PrintT(<<why, inp, out, Blocking>>) /\ FALSE)
\* a None is the end of the input: everything was received, and nothing is left open or queued
EndsOnce == (out # <<>> /\ out[Len(out)].res = "none" /\ Wrapper # "one_read") => avail = Len(inp) /\ r.queue = <<>>
\* the inner iterator never sees a false end of input: whenever it is asked, its answer is the blocking iterator's next one
StepWise == (phase = "run" /\ Wrapper = "header_aware") =>
   \A i \in 1..Min(Len(out), Len(Blocking)) : P04!Rel(<<Blocking[i]>>, <<out[i]>>) = ""
=============================================================================
