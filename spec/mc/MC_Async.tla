------------------------------ MODULE MC_Async ------------------------------
(***************************************************************************)
(* C20, design level.  TagIteratorAsync (src/nonblocking.rs) is an inner   *)
(* blocking iterator over an in-memory cursor that only grows:             *)
(*   AsyncNext == one source read of n bytes appended to the cursor, then  *)
(*                one inner next() over what the cursor holds.              *)
(* The *intended* behaviour is the refinement target: the results equal    *)
(* those of the blocking iterator over the same bytes, ending once.        *)
(* With OneReadPerCall = FALSE the wrapper is the intended one (it keeps   *)
(* reading until the source is exhausted before it lets the inner iterator *)
(* see an end of input) and the refinement holds for every poll schedule.  *)
(* With OneReadPerCall = TRUE the model is the *current* code, named       *)
(* deviation DEV_ASYNC_STRADDLE: TLC then produces the counterexample (a   *)
(* tag straddling two reads; premature Ends at a boundary) - that          *)
(* configuration is kept for documentation and is not part of the check.   *)
(***************************************************************************)
EXTENDS ReaderCore, Schemas, TLC
CONSTANTS MaxLen, Sigma, OneReadPerCall
VARIABLES inp, avail, r, out, phase
vars == <<inp, avail, r, out, phase>>
P04 == INSTANCE P_C04
Cfg == [allowId |-> FALSE, allowHier |-> FALSE, allowSize |-> FALSE, hasMax |-> FALSE, max |-> <<>>, buffered |-> {}, eofClose |-> TRUE, cap0 |-> 16]
Blocking == ParseAll(S3, Cfg, inp)

Init == inp = <<>> /\ avail = 0 /\ r = InitReader /\ out = <<>> /\ phase = "grow"
Grow == phase = "grow" /\ Len(inp) < MaxLen /\ \E b \in Sigma : inp' = Append(inp, b) /\ UNCHANGED <<avail, r, out, phase>>
Start == phase = "grow" /\ phase' = "run" /\ UNCHANGED <<inp, avail, r, out>>
Done == out # <<>> /\ out[Len(out)].res # "item" /\ avail = Len(inp)
\* one poll: the source hands over n >= 0 further bytes (any split), then the inner iterator is asked
AsyncNext == /\ phase = "run" /\ ~Done
             /\ \E n \in 0..(Len(inp) - avail) :
                  LET a1 == avail + n IN
                  /\ avail' = a1
                  /\ IF OneReadPerCall \/ a1 = Len(inp)
                     THEN LET s == NextCall(S3, Cfg, Take(inp, a1), r) IN r' = s.r /\ out' = Append(out, s.res)
                     ELSE UNCHANGED <<r, out>>              \* intended: keep reading, do not show the inner iterator a false end
             /\ UNCHANGED <<inp, phase>>
Next == Grow \/ Start \/ AsyncNext
Spec == Init /\ [][Next]_vars
Refines == (phase = "run" /\ Done) =>
   LET why == P04!Rel(Blocking, out) IN why = "" \/ (PrintT(<<why, inp, out, Blocking>>) /\ FALSE)
EndsOnce == \A i \in 1..(Len(out) - 1) : out[i].res # "none" \/ OneReadPerCall
=============================================================================
