------------------------------ MODULE MC_Writer ------------------------------
(***************************************************************************)
(* Bounded model of the writer design: every sequence of at most MaxCalls  *)
(* public calls drawn from Ops (schema S3: every call shape incl. each     *)
(* kind of rejected call, known / unknown size, explicit widths, Full      *)
(* masters with valid and invalid children, raw tags, flush).  Checks that *)
(* the design Writer satisfies C10 (monitor P_C10, incl. "what the         *)
(* destination holds parses to the tags written so far" through the        *)
(* reader design), C19 (a rejected call is a no-op), C09 (Full = Start,    *)
(* children, End; deprecated = option call) and C01 (round trip at every   *)
(* flush).                                                                  *)
(***************************************************************************)
EXTENDS WriterObs, Schemas, TLC
CONSTANTS MaxCalls, OpSet
VARIABLES w, prev, hist, amb, pend    \* pend: an unknown-size master has ended and no non-global tag was accepted since
vars == <<w, prev, hist, amb, pend>>
P10 == INSTANCE P_C10

Op(k, id, ty, val, width, unknown, kids) == [k |-> k, id |-> id, ty |-> ty, val |-> val, width |-> width, unknown |-> unknown, kids |-> kids]
St(id) == Op("start", id, "master", <<>>, 0, FALSE, <<>>)
StU(id) == Op("start", id, "master", <<>>, 0, TRUE, <<>>)
En(id) == Op("end", id, "master", <<>>, 0, FALSE, <<>>)
El(id, ty, val) == Op("elem", id, ty, val, 0, FALSE, <<>>)
K(kind, id, ty, val, kids) == [kind |-> kind, id |-> id, ty |-> ty, val |-> val, kids |-> kids]
V(n) == NatW8(n)
Bin127 == [i \in 1..127 |-> 7]
OpsCore == { St(A), StU(A), St(B), StU(B), StU(Cc), St(Cc), St(R2), En(A), En(B), En(Cc), En(R2),
             El(U, "uint", V(1)), El(P, "uint", V(300)), El(Q, "uint", V(3)), El(X, "bin", <<>>), El(G, "bin", <<9>>),
             Op("flush", <<>>, "", <<>>, 0, FALSE, <<>>) }
OpsWidth == { [St(B) EXCEPT !.width = 1], [El(X, "bin", <<1, 2>>) EXCEPT !.width = 3], [El(X, "bin", Bin127) EXCEPT !.width = 1],
              El(X, "bin", Bin127), [El(P, "uint", V(5)) EXCEPT !.width = 8], Op("start_unknown_dep", B, "master", <<>>, 0, TRUE, <<>>) }
OpsFull == { Op("full", B, "master", <<>>, 0, FALSE, <<K("elem", Q, "uint", V(3), <<>>)>>),
             Op("full", B, "master", <<>>, 2, FALSE, <<K("full", Cc, "master", <<>>, <<K("elem", U, "uint", V(1), <<>>)>>)>>),
             Op("full", A, "master", <<>>, 0, FALSE, <<K("elem", P, "uint", V(2), <<>>), K("full", B, "master", <<>>, <<K("elem", Q, "uint", V(3), <<>>)>>)>>),
             Op("full", B, "master", <<>>, 0, FALSE, <<K("elem", Q, "uint", V(3), <<>>), K("elem", P, "uint", V(2), <<>>)>>),            \* invalid child
             Op("full", A, "master", <<>>, 0, FALSE, <<K("full", B, "master", <<>>, <<K("elem", U, "uint", V(1), <<>>)>>)>>),          \* invalid grandchild
             Op("full", R2, "master", <<>>, 0, FALSE, <<>>),
             Op("full", B, "master", <<>>, 0, TRUE, <<K("elem", Q, "uint", V(3), <<>>)>>),                                               \* Full item with the unknown-size option: rejected
             Op("end", B, "master", <<>>, 0, TRUE, <<>>),                                                                                  \* End with the unknown-size option: an ordinary End
             Op("full", R2, "master", <<>>, 0, FALSE, <<K("end", R2, "master", <<>>, <<>>)>>),                                            \* a child ending the Full master itself
             Op("full", B, "master", <<>>, 0, FALSE, <<K("end", B, "master", <<>>, <<>>), K("end", A, "master", <<>>, <<>>)>>),         \* ... and a master opened before the call
             Op("full", B, "master", <<>>, 0, FALSE, <<K("start", Cc, "master", <<>>, <<>>), K("elem", U, "uint", V(1), <<>>), K("end", Cc, "master", <<>>, <<>>)>>),   \* Start ... End run of children
             Op("full", B, "master", <<>>, 0, FALSE, <<K("start", Cc, "master", <<>>, <<>>)>>),                                           \* child left open
             Op("full", A, "master", <<>>, 1, FALSE, <<K("elem", G, "bin", Bin127, <<>>)>>) }                                                 \* body does not fit width 1
OpsBad == { [El(P, "uint", V(1)) EXCEPT !.unknown = TRUE], Op("rawtag", <<66, 66>>, "raw", <<1>>, 0, FALSE, <<>>),
            Op("rawtag", <<18, 52>>, "raw", <<1>>, 0, FALSE, <<>>), Op("rawtag", <<1>>, "raw", <<>>, 0, FALSE, <<>>) }
Ops == CASE OpSet = "core" -> OpsCore [] OpSet = "width" -> OpsCore \cup OpsWidth [] OpSet = "full" -> OpsCore \cup OpsFull
         [] OTHER -> OpsCore \cup OpsWidth \cup OpsFull \cup OpsBad

Init == w = InitWriter /\ prev = InitWriter /\ hist = <<>> /\ amb = FALSE /\ pend = FALSE
Ev(op, s) == op @@ [ev |-> "write", res |-> s.res, dest_len |-> Len(s.w.dest), dest_tail |-> Drop(s.w.dest, Len(w.dest))]
\* the inherently ambiguous encodings (C07): a global element or a raw tag written directly after the End of an unknown-size master
EndsUnknown(op) == \/ op.k = "end" /\ w.open # <<>> /\ ~w.open[Len(w.open)].known
                   \/ op.k = "flush" /\ \E i \in 1..Len(w.open) : ~w.open[i].known
Ambiguous(op) == op.k \in {"elem", "rawtag", "full", "start"} /\ (IsGlobal(S3, op.id) \/ ~KnownId(S3, op.id))
Call == /\ Len(hist) < MaxCalls
        /\ \E op \in Ops :
             LET s == WriteCall(S3, w, op) IN
             /\ w' = s.w /\ prev' = w /\ hist' = Append(hist, Ev(op, s))
             /\ amb' = (amb \/ (s.res = "ok" /\ pend /\ Ambiguous(op)))
             /\ pend' = IF s.res # "ok" THEN pend ELSE IF EndsUnknown(op) THEN TRUE ELSE IF Ambiguous(op) \/ op.k \in {"end", "flush"} THEN pend ELSE FALSE
Next == Call
Spec == Init /\ [][Next]_vars

LastEv == hist[Len(hist)]
RECURSIVE Fold10(_, _)
Fold10(m, i) == IF i > Len(hist) THEN m ELSE Fold10(P10!Step(S3, TRUE, m, hist[i]), i + 1)
Inv_C10 == ~amb => LET m == Fold10(P10!M0, 1) IN m.ok \/ (PrintT(<<m.why, hist>>) /\ FALSE)
DestMonotone == [][IsPrefixOf(w.dest, w'.dest)]_vars
\* C19: a rejected call is a no-op on the whole state (also inside Full: all or nothing)
Inv_C19 == hist # <<>> => (LastEv.res # "ok" => (w = prev /\ LastEv.dest_tail = <<>>))
\* ... and the classification is the specific one
Inv_C19_Class == hist # <<>> =>
   /\ (LastEv.unknown /\ LastEv.ty # "master" /\ LastEv.k # "start_unknown_dep") => LastEv.res = "size"
   /\ (LastEv.unknown /\ LastEv.k = "full") => LastEv.res = "size"
   /\ (LastEv.k = "rawtag" /\ ~WellFormedId(LastEv.id) /\ ~LastEv.unknown) => LastEv.res = "id"
   /\ (LastEv.k = "end" /\ (prev.open = <<>> \/ prev.open[Len(prev.open)].id # LastEv.id)) => LastEv.res = "closing"
   /\ (LastEv.k \in {"elem", "start", "full", "start_unknown_dep"} /\ KnownId(S3, LastEv.id) /\ ~(LastEv.unknown /\ (LastEv.ty # "master" \/ LastEv.k = "full"))
         /\ ~PathAllows(S3, LastEv.id, Chain(prev))) => LastEv.res = "unexpected_tag"
\* C09: one Full item = Start, the children, End (from the same state); deprecated call = option call
Unfold(op) == <<[op EXCEPT !.k = "start", !.kids = <<>>]>>
              \o [i \in 1..Len(op.kids) |-> Op(KidK(op.kids[i]), op.kids[i].id, op.kids[i].ty, op.kids[i].val, 0, FALSE, op.kids[i].kids)]
              \o <<En(op.id)>>
Inv_C09 == hist # <<>> =>
   /\ (LastEv.k = "full" /\ LastEv.res = "ok") => RunOps(S3, prev, Unfold(LastEv), 1) = w
   /\ LastEv.k = "start_unknown_dep" => WriteCall(S3, prev, [LastEv EXCEPT !.k = "start"]).w = w
\* C01: at every successful flush the strict parse of the output is exactly what was written
RECURSIVE Acc(_, _, _)
Acc(i, open, acc) == IF i > Len(hist) THEN acc
   ELSE LET e == hist[i] IN
     IF e.res # "ok" THEN Acc(i + 1, open, acc)
     ELSE Acc(i + 1, CASE e.k \in {"start", "start_unknown_dep"} -> Append(open, e.id) [] e.k = "end" -> SubSeq(open, 1, Len(open) - 1)
                          [] e.k = "flush" -> <<>> [] OTHER -> open, acc \o TagsOf(e, open))
Inv_C01 == (hist # <<>> /\ LastEv.k = "flush" /\ LastEv.res = "ok" /\ ~amb) =>
   LET p == ParseAll(S3, ReadCfg(TRUE, TRUE), w.dest) IN
   \/ (FirstNonItem(p).res = "none" /\ SameFlat(Acc(1, <<>>, <<>>), Items(p)))
   \/ (PrintT(<<"C01 round trip fails", hist, p>>) /\ FALSE)
=============================================================================
