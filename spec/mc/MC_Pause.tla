------------------------------ MODULE MC_Pause ------------------------------
(***************************************************************************)
(* C04, design level: with end-of-stream closing disabled, a source that   *)
(* pauses (reports temporary end-of-file) at tag boundaries before         *)
(* delivering more is invisible.  The environment delivers the input up to *)
(* a tag boundary of its choice (any subset of boundaries, in order); the  *)
(* reader is called on what has been delivered; a None while bytes are     *)
(* outstanding is a pause.  The sequence of results (pauses dropped) must  *)
(* equal that of reading the whole input at once (relation P_C04).         *)
(* The window / capacity mechanics of the real buffer are the subject of   *)
(* ReaderBuf; here the Level 1 state machine is shown to be resumable.     *)
(***************************************************************************)
EXTENDS ReaderCore, Schemas, TLC
CONSTANTS MaxLen, Sigma, AllowSets
VARIABLES inp, avail, cfg, r, out, phase, fresh      \* fresh: bytes were delivered since the last call
vars == <<inp, avail, cfg, r, out, phase, fresh>>
P04 == INSTANCE P_C04

Bit(n, b) == (n \div b) % 2 = 1
Cfgs == {[allowId |-> Bit(a, 1), allowHier |-> Bit(a, 2), allowSize |-> Bit(a, 4), hasMax |-> FALSE, max |-> <<>>,
          buffered |-> {}, eofClose |-> FALSE, cap0 |-> 16] : a \in AllowSets}
Whole == ParseAll(S3, cfg, inp)
\* tag boundaries of the whole parse: starts of its non-End items (and the end of the input)
Boundaries == {Whole[i].off : i \in {j \in 1..Len(Whole) : Whole[j].res = "item" /\ Whole[j].kind # "end"}} \cup {Len(inp)}

Init == inp = <<>> /\ avail = 0 /\ cfg \in Cfgs /\ r = InitReader /\ out = <<>> /\ phase = "grow" /\ fresh = TRUE
Grow == phase = "grow" /\ Len(inp) < MaxLen /\ \E b \in Sigma : inp' = Append(inp, b) /\ UNCHANGED <<avail, cfg, r, out, phase, fresh>>
Start == phase = "grow" /\ phase' = "run" /\ UNCHANGED <<inp, avail, cfg, r, out, fresh>>
\* the source delivers up to a later boundary (only when the reader has seen a pause or nothing yet)
Deliver == /\ phase = "run" /\ avail < Len(inp)
           /\ (IF out = <<>> THEN TRUE ELSE out[Len(out)].res = "none")
           /\ \E b \in Boundaries : b > avail /\ avail' = b
           /\ fresh' = TRUE /\ UNCHANGED <<inp, cfg, r, out, phase>>
Done == out # <<>> /\ (out[Len(out)].res = "err" \/ (out[Len(out)].res = "none" /\ avail = Len(inp) /\ ~fresh))
Call == /\ phase = "run" /\ ~Done
        /\ (IF out = <<>> THEN TRUE ELSE (out[Len(out)].res = "item" \/ fresh))     \* no busy polling of a paused source
        /\ LET s == NextCall(S3, cfg, Take(inp, avail), r) IN
             r' = s.r /\ out' = Append(out, IF s.res.res = "none" THEN [res |-> "none", pause |-> avail < Len(inp)] ELSE s.res)
        /\ fresh' = FALSE /\ UNCHANGED <<inp, avail, cfg, phase>>
Next == Grow \/ Start \/ Deliver \/ Call
Spec == Init /\ [][Next]_vars

\* only pauses at boundaries are promised: an error caused by a pause elsewhere cannot occur here by construction
Inv_C04 == (phase = "run" /\ Done) =>
   LET why == P04!Rel(Whole, out) IN why = "" \/ (PrintT(<<why, inp, cfg, out, Whole>>) /\ FALSE)
\* never more results than the whole parse plus one pause per boundary
Bounded == Len(out) <= Len(Whole) + Len(inp) + 2
=============================================================================
