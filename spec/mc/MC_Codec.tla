------------------------------ MODULE MC_Codec ------------------------------
(***************************************************************************)
(* Bounded model of the codec reference (Vint, Payload): TLC walks every   *)
(* word of <= MaxLen bytes plus the boundary lattice around every          *)
(* 2^(7k), 2^(7k-1), 2^(8k), 2^(8k-1) (and their negations), crossed with  *)
(* every width 1..8, and evaluates the codec theorems of C15 / C16 in      *)
(* every state.  x plays both roles: a value (big-endian word) and a byte  *)
(* slice handed to a decoder.                                              *)
(***************************************************************************)
EXTENDS Vint, Payload, TLC
CONSTANT MaxLen
VARIABLES x, w
vars == <<x, w>>

Pad64(bs) == Zeros(64 - Len(bs)) \o bs
Not64(bs) == [i \in 1..64 |-> 1 - bs[i]]
Around(n) ==    \* 2^n - 2 .. 2^n + 2 as 64-bit strings (n >= 2)
  { Pad64(Fill(n - 1, 1) \o <<0>>), Pad64(Fill(n, 1)), Pad64(<<1>> \o Zeros(n)),
    Pad64(<<1>> \o Zeros(n - 1) \o <<1>>), Pad64(<<1>> \o Zeros(n - 2) \o <<1, 0>>) }
Exps == {7 * k : k \in 1..9} \cup {7 * k - 1 : k \in 1..9} \cup {8 * k : k \in 1..7} \cup {8 * k - 1 : k \in 1..8}
LatticeBits == UNION {Around(n) : n \in {e \in Exps : e >= 2 /\ e <= 63}}
Lattice == {BitsW(b) : b \in LatticeBits} \cup {BitsW(Not64(b)) : b \in LatticeBits}
\* 9-byte slices for the "too long" branches of the payload decoders
Long == {<<1, 2, 3, 4, 5, 6, 7, 8, 9>>, Zeros(9), Fill(9, 255), <<128>> \o Zeros(8)}

\* w = 0: x is still being chosen (grown byte by byte, so that the work spreads over all workers)
Init == x = <<>> /\ w = 0
Next == \/ w = 0 /\ Len(x) < MaxLen /\ \E b \in Byte : x' = Append(x, b) /\ w' = 0
        \/ w = 0 /\ x = <<>> /\ x' \in (Lattice \cup Long) /\ w' = 1
        \/ w = 0 /\ w' = 1 /\ x' = x
        \/ w \in 1..7 /\ w' = w + 1 /\ x' = x
Spec == Init /\ [][Next]_vars

IsVal == Len(x) <= 8                        \* x usable as a u64 / i64 / f64 value
V8 == WPad(x, 8)
Small == WToNat(x) < HUGE

(* ---- C15, unsigned ---- *)
RoundTrip == IsVal => LET e == AsVintW(x, w) IN
   e.t = "ok" => /\ Len(e.bytes) = w
                 /\ ReadVint(e.bytes) = [t |-> "ok", len |-> w, val |-> W8(x)]
                 /\ ReadVint(e.bytes \o <<w, 7>>) = [t |-> "ok", len |-> w, val |-> W8(x)]   \* trailing bytes ignored
OverflowIffTooBig == (IsVal /\ Small) =>
   (AsVintW(x, w).t = "overflow" <=> (7 * w < 30 /\ WToNat(x) >= 2 ^ (7 * w)))
Canonical == IsVal => LET e == AsVint(x) IN
   IF ~Fits(x, 8) THEN e.t = "overflow"
   ELSE /\ e.t = "ok"
        /\ \A u \in 1..(Len(e.bytes) - 1) : AsVintW(x, u).t = "overflow"
        /\ AsVintW(x, Len(e.bytes)) = e
        /\ ReadVint(e.bytes).val = W8(x)
\* decoder: total, "more" exactly for proper prefixes, never beyond the slice
DecoderTotal == LET r == ReadVint(x) IN
   /\ r.t \in {"ok", "more", "err"}
   /\ r.t = "ok" => /\ r.len <= Len(x) /\ r.len \in 1..8
                    /\ ReadVint(Take(x, r.len)) = r
                    /\ AsVintW(r.val, r.len) = [t |-> "ok", bytes |-> Take(x, r.len)]
   /\ r.t = "more" <=> (x = <<>> \/ (x[1] # 0 /\ LET f == ReadVint(x \o Zeros(8)) IN f.t = "ok" /\ f.len > Len(x)))
   /\ r.t = "err" <=> (x # <<>> /\ x[1] = 0)
SignedAgreesOnLength == LET r == ReadVint(x)  s == SReadVint(x) IN
   r.t = s.t /\ (r.t = "ok" => r.len = s.len)
(* ---- C15, signed ---- *)
SV == IF IsVal THEN ArrToI64(x).val ELSE Zeros(8)   \* x read as a signed value (sign-extended)
SignedRoundTrip == IsVal => \A v \in {SV, V8} :
   /\ SFits(v, w) => SReadVint(SEnc(v, w)) = [t |-> "ok", len |-> w, val |-> v]
   /\ SFitsWeak(v, w) => SReadVint(SEnc(v, w)).val = v             \* the boundary value decodes back too
   /\ SFits(v, w) => \A u \in w..8 : SFits(v, u)                    \* ranges are nested
   /\ \A r \in SAsVintSet(v) : r.t = "ok" => SReadVint(r.bytes).val = v
   /\ (SFits(v, 8) => \A r \in SAsVintSet(v) : r.t = "ok" /\ Len(r.bytes) <= SMinWidth(v))
SignedRange == (IsVal /\ Len(x) <= 2) =>      \* small positive n: fits iff n < 2^(7w-1); -n-1 likewise
   LET n == WToNat(x) IN (7 * w - 1 < 30) =>
      /\ SFitsWeak(V8, w) <=> n < 2 ^ (7 * w - 1)
      /\ SFitsWeak(BitsW(Not64(WBits(V8))), w) <=> n < 2 ^ (7 * w - 1)
(* ---- is_vint ---- *)
IdWellFormed == IsVal =>
   (WellFormedId(x) <=> LET s == WStrip(x) IN s # <<>> /\ ReadVint(s).t = "ok" /\ ReadVint(s).len = Len(s))
(* ---- C16 ---- *)
PayloadTotal ==
   /\ ArrToU64(x).t = (IF Len(x) > 8 THEN "err" ELSE "ok")
   /\ ArrToI64(x).t = (IF Len(x) > 8 THEN "err" ELSE "ok")
   /\ ArrToF64(x).t = (IF Len(x) \in {4, 8} THEN "ok" ELSE "err")
   /\ x = <<>> => ArrToU64(x).val = Zeros(8) /\ ArrToI64(x).val = Zeros(8)
   /\ (IsVal /\ Small) => WToNat(ArrToU64(x).val) = WToNat(x)
   /\ (IsVal /\ x # <<>> /\ x[1] < 128) => ArrToI64(x).val = ArrToU64(x).val
EncodersInvert == IsVal =>
   /\ ArrToU64(EncUInt(V8)) = [t |-> "ok", val |-> V8] /\ Len(EncUInt(V8)) \in {1, 2, 4, 8}
   /\ \A k \in {1, 2, 4} : k < Len(EncUInt(V8)) => Len(WStrip(V8)) > k               \* minimal
   /\ \A v \in {V8, SV} : /\ ArrToI64(EncInt(v)) = [t |-> "ok", val |-> v] /\ Len(EncInt(v)) \in {1, 2, 4, 8}
                          /\ \A k \in {1, 2, 4} : k < Len(EncInt(v)) => ~SFitsBytes(v, k)
   /\ ArrToF64(EncFloat(V8)) = [t |-> "ok", val |-> V8]
FloatWiden == Len(x) = 4 =>
   LET r == ArrToF64(x).val IN
   /\ Len(r) = 8 /\ (r[1] >= 128 <=> x[1] >= 128)                                    \* sign kept
   /\ IsNaN32(x) <=> IsNaN64(r)
   /\ (WStrip(<<x[1] % 128>> \o Tail(x)) = <<>>) <=> (WStrip(<<r[1] % 128>> \o Tail(r)) = <<>>)   \* zero iff zero
Utf8Sanity == /\ Utf8Valid(<<>>) /\ Utf8Valid(<<72, 105>>) /\ Utf8Valid(<<195, 169>>) /\ Utf8Valid(<<226, 130, 172>>)
              /\ Utf8Valid(<<240, 159, 152, 128>>) /\ ~Utf8Valid(<<192, 128>>) /\ ~Utf8Valid(<<237, 160, 128>>)
              /\ ~Utf8Valid(<<244, 144, 128, 128>>) /\ ~Utf8Valid(<<226, 130>>) /\ ~Utf8Valid(<<128>>)
              /\ (Len(x) <= 1 => (Utf8Valid(x) <=> (x = <<>> \/ x[1] < 128)))

\* evaluation schedule: width-dependent theorems in every state with w >= 1, the others once per x
Inv_W    == w >= 1 => RoundTrip /\ OverflowIffTooBig /\ SignedRoundTrip /\ SignedRange
Inv_C15  == w = 1 => Canonical /\ DecoderTotal /\ SignedAgreesOnLength /\ IdWellFormed
Inv_C16  == w = 1 => PayloadTotal /\ EncodersInvert /\ FloatWiden /\ Utf8Sanity
=============================================================================
