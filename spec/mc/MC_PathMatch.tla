---------------------------- MODULE MC_PathMatch ----------------------------
(***************************************************************************)
(* Bounded proof that the single-pass matcher MatchAlgo (the algorithm the *)
(* implementation is compared with, and the shape a correct                *)
(* validate_tag_path has) equals the declarative reading of a declared     *)
(* path (Matches, property C11): every pattern of <= MaxP parts over NIds  *)
(* master ids and placeholders (min-max) in leading, intermediate and      *)
(* trailing position, against every chain of <= MaxC open masters.         *)
(***************************************************************************)
EXTENDS Schema, TLC
CONSTANTS NIds, MaxP, MaxC
VARIABLES p, c, phase
vars == <<p, c, phase>>

Ids == {<<128 + i>> : i \in 1..NIds}
Globs == {[k |-> "glob", id |-> <<>>, min |-> a, max |-> z] : a \in 0..2, z \in {-1, 1, 2, 3}} 
Parts == {[k |-> "id", id |-> i, min |-> 0, max |-> 0] : i \in Ids} \cup {g \in Globs : g.max < 0 \/ g.min <= g.max}

Init == p = <<>> /\ c = <<>> /\ phase = "p"
GrowP == phase = "p" /\ Len(p) < MaxP /\ \E x \in Parts : p' = Append(p, x) /\ UNCHANGED <<c, phase>>
Turn  == phase = "p" /\ phase' = "c" /\ UNCHANGED <<p, c>>
GrowC == phase = "c" /\ Len(c) < MaxC /\ \E i \in Ids : c' = Append(c, i) /\ UNCHANGED <<p, phase>>
Next == GrowP \/ Turn \/ GrowC
Spec == Init /\ [][Next]_vars

AlgoEqualsDeclarative == phase = "c" => (MatchAlgo(p, c) <=> Matches(p, c))
\* consequences the property states explicitly
RootOnlyAtTop   == phase = "c" /\ p = <<>> => (Matches(p, c) <=> c = <<>>)
NamedParentsExact == (phase = "c" /\ AllIds(p)) => (Matches(p, c) <=> c = [i \in 1..Len(p) |-> p[i].id])
WholeChainConsumed == (phase = "c" /\ Matches(p, c) /\ Len(c) > 0 /\ p # <<>> /\ p[Len(p)].k = "id") => c[Len(c)] = p[Len(p)].id
GlobBounds == (phase = "c" /\ Len(p) = 1 /\ p[1].k = "glob") =>
                 (Matches(p, c) <=> (Len(c) >= p[1].min /\ (p[1].max < 0 \/ Len(c) <= p[1].max)))
=============================================================================
