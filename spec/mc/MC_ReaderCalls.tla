--------------------------- MODULE MC_ReaderCalls ---------------------------
(***************************************************************************)
(* Bounded model of call histories of the reader: next() and               *)
(* try_recover() in any order over every input up to MaxLen (C05, C14      *)
(* monitors), and - JunkMode - the recovery scenario of C14: a valid       *)
(* known-size document of Docs with a run of junk bytes inserted at a tag  *)
(* boundary, driven by "next; on error try_recover; continue".             *)
(***************************************************************************)
EXTENDS ReaderCore, Schemas, TLC
CONSTANTS MaxLen, Sigma, MaxCalls, JunkMode, JunkBytes, MaxJunk
VARIABLES inp, cfg, r, out, phase, meta
vars == <<inp, cfg, r, out, phase, meta>>

P05 == INSTANCE P_C05
P14 == INSTANCE P_C14

StrictCfg == [allowId |-> FALSE, allowHier |-> FALSE, allowSize |-> FALSE, hasMax |-> FALSE, max |-> <<>>, buffered |-> {}, eofClose |-> TRUE, cap0 |-> 16]
Cfgs == {StrictCfg, [StrictCfg EXCEPT !.allowId = TRUE, !.allowHier = TRUE, !.allowSize = TRUE], [StrictCfg EXCEPT !.eofClose = FALSE, !.buffered = {B}]}

\* valid known-size documents over S3 (hand-encoded) for the junk scenario
Docs == { <<129, 134, 137, 129, 1, 137, 129, 2>>,                                   \* A{P=1 P=2}
          <<129, 136, 130, 131, 138, 129, 5, 137, 129, 7, 139, 128>>,              \* A{B{Q=5} P=7} R2{}
          <<129, 138, 130, 133, 131, 131, 132, 129, 9, 137, 129, 1, 139, 128>>,    \* A{B{C{U=9}} P=1} R2{}
          <<139, 128, 129, 131, 137, 129, 3, 139, 130, 236, 128>> }                 \* R2{} A{P=3} R2{G}
\* tag boundaries of a document: offsets of non-End items of its clean parse
Bounds(d) == LET its == ParseAll(S3, StrictCfg, d) IN
             {its[i].off : i \in {j \in 1..Len(its) : its[j].res = "item" /\ its[j].kind # "end"}}
\* does the tag at offset b still fit every enclosing known-size master when shifted by n?
FitsAfterShift(d, b, n) ==
  LET its == ParseAll(S3, StrictCfg, d)
      h == HeaderAt(d, b)
      tagEnd == b + h.hlen + h.size            \* the whole tag (a known-size master with its content)
  IN \A i \in 1..Len(its) : (its[i].res = "item" /\ its[i].kind = "start" /\ its[i].off < b) =>
        LET mh == HeaderAt(d, its[i].off) IN
        (its[i].off + mh.hlen + mh.size > b) => tagEnd + n <= its[i].off + mh.hlen + mh.size
JunkSeqs == UNION {[1..k -> JunkBytes] : k \in 1..MaxJunk}

Init == /\ r = InitReader /\ out = <<>>
        /\ IF JunkMode
           THEN \E d \in Docs : \E b \in Bounds(d) : \E j \in JunkSeqs :
                  /\ FitsAfterShift(d, b, Len(j))
                  /\ inp = SubSeq(d, 1, b) \o j \o SubSeq(d, b + 1, Len(d))
                  /\ meta = [doc |-> d, at |-> b, n |-> Len(j)]
                  /\ cfg = StrictCfg /\ phase = "run"
           ELSE inp = <<>> /\ cfg \in Cfgs /\ phase = "grow" /\ meta = [doc |-> <<>>, at |-> 0, n |-> 0]
Grow == phase = "grow" /\ Len(inp) < MaxLen /\ \E b \in Sigma : inp' = Append(inp, b) /\ UNCHANGED <<cfg, r, out, phase, meta>>
Start == phase = "grow" /\ phase' = "run" /\ UNCHANGED <<inp, cfg, r, out, meta>>
DoNext == LET s == NextCall(S3, cfg, inp, r) IN
          r' = s.r /\ out' = Append(out, s.res @@ [ev |-> "next", st |-> [pos |-> s.r.pos]])
DoRecover == LET s == RecoverCall(S3, cfg, inp, r) IN
          r' = s.r /\ out' = Append(out, [ev |-> "recover", res |-> IF s.ok THEN "ok" ELSE "eof", st |-> [pos |-> s.r.pos]])
LastRes == IF out = <<>> THEN "" ELSE out[Len(out)].res
\* free interleaving (C05 / C14 monitors)
CallAny == phase = "run" /\ ~JunkMode /\ Len(out) < MaxCalls /\ (DoNext \/ DoRecover) /\ UNCHANGED <<inp, cfg, phase, meta>>
\* the recovery policy of C14
Ended == out # <<>> /\ ((out[Len(out)].ev = "next" /\ LastRes = "none") \/ (out[Len(out)].ev = "recover" /\ LastRes # "ok"))
CallPolicy == /\ phase = "run" /\ JunkMode /\ ~Ended /\ Len(out) < MaxCalls
              /\ IF out # <<>> /\ out[Len(out)].ev = "next" /\ LastRes = "err" THEN DoRecover ELSE DoNext
              /\ UNCHANGED <<inp, cfg, phase, meta>>
Next == Grow \/ Start \/ CallAny \/ CallPolicy
Spec == Init /\ [][Next]_vars

RECURSIVE Fold05(_, _)  RECURSIVE Fold14(_, _)
Fold05(m, i) == IF i > Len(out) THEN m ELSE Fold05(P05!Step(S3, inp, cfg, m, out[i]), i + 1)
Fold14(m, i) == IF i > Len(out) THEN m ELSE Fold14(P14!Step(S3, inp, cfg, m, out[i]), i + 1)
Show(m) == m.ok \/ (PrintT(<<m.why, inp, cfg, out>>) /\ FALSE)
M05 == [P05!M0 EXCEPT !.delivered = Len(inp), !.srcEof = TRUE]
Inv_C05 == phase = "run" => Show(Fold05(M05, 1))
Inv_C14 == phase = "run" => Show(Fold14(P14!M0, 1))
TypeOK == r.pos \in 0..Len(inp)
\* recovery loses nothing (JunkMode): judged when the policy has run to the end
Inv_Junk == (JunkMode /\ Ended) =>
   LET why == P14!Rel(ParseAll(S3, StrictCfg, meta.doc), out, meta.at, meta.n) IN
   why = "" \/ (PrintT(<<why, meta, inp, out>>) /\ FALSE)
=============================================================================
