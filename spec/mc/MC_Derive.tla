------------------------------ MODULE MC_Derive ------------------------------
(***************************************************************************)
(* Bounded model of the declaration language (DeriveDecl): every           *)
(* declaration of at most MaxVariants variants over a small vocabulary     *)
(* (three names, ids incl. a reserved one, three types, paths of <= 2      *)
(* parts incl. unknown names and every placeholder shape).  Checks that    *)
(* what Accepts admits always denotes a well-formed schema (so the "bad    *)
(* specification" panics of iterator and writer are unreachable) and that  *)
(* each listed kind of broken declaration is rejected.                      *)
(***************************************************************************)
EXTENDS DeriveDecl, TLC
CONSTANT MaxVariants
VARIABLES D
Names == {"A", "B", "C"}
IdSet == {<<129>>, <<130>>, <<191>>}
TySet == {"Master", "UnsignedInt", "Binary"}
NP(n) == [k |-> "name", name |-> n, min |-> -1, max |-> -1]
GP(a, z) == [k |-> "glob", name |-> "", min |-> a, max |-> z]
Parts == {NP("A"), NP("B"), NP("Zz"), GP(-1, -1), GP(1, 1), GP(-1, 0)}
Paths == {<<>>} \cup {<<p>> : p \in Parts} \cup {<<p, q>> : p \in Parts, q \in Parts}
Variants == [name : Names, id : IdSet, ty : TySet, path : Paths, has_id : {TRUE}, has_ty : BOOLEAN, dup_id : {FALSE}]
Init == D = <<>>
Next == Len(D) < MaxVariants /\ \E v \in Variants : D' = Append(D, v)
Spec == Init /\ [][Next]_D

AcceptedIsWellFormed == Accepts(D) => WellFormedSchema(Table(D))
AcceptedHasGlobals == Accepts(D) => (KnownId(Table(D), <<191>>) /\ KnownId(Table(D), <<236>>) /\ TypeOf(Table(D), <<191>>) = "bin")
RejectsListedFaults ==
  /\ (\E i, j \in 1..Len(D) : i # j /\ D[i].id = D[j].id) => ~Accepts(D)
  /\ (\E i \in 1..Len(D) : D[i].id = <<191>>) => ~Accepts(D)
  /\ (\E i \in 1..Len(D) : \E k \in 1..Len(D[i].path) : D[i].path[k].k = "name" /\ D[i].path[k].name = "Zz") => ~Accepts(D)
  /\ (\E i \in 1..Len(D) : \E k \in 1..Len(D[i].path) : D[i].path[k].k = "glob" /\ D[i].path[k].max = 0) => ~Accepts(D)
  /\ (\E i \in 1..Len(D) : Len(D[i].path) = 2 /\ D[i].path[1].k = "glob" /\ D[i].path[2].k = "glob") => ~Accepts(D)
  /\ (\E i \in 1..Len(D) : ~D[i].has_ty) => ~Accepts(D)
  /\ (\E i, j \in 1..Len(D) : HasParent(D[i]) /\ ParentName(D[i]) = D[j].name /\ D[j].ty # "Master") => ~Accepts(D)
=============================================================================
