---------------------------- MODULE MC_ReaderBuf ----------------------------
(***************************************************************************)
(* C04 / C12 / C17, design level: the buffer window is invisible.  For     *)
(* each document of Docs (valid, truncated and corrupted inputs with long  *)
(* headers, payloads larger than the capacity, unknown-size and buffered   *)
(* masters), every composition of its length into read sizes (i.e. every   *)
(* way the source may split the bytes), every initial capacity of Caps     *)
(* and - with end-of-stream closing disabled - "no data for now" pauses at *)
(* any subset of PauseAt positions, TLC steps the windowed reader          *)
(* ReaderBuf one public call at a time and checks                           *)
(*   Refines   its results (pauses dropped) equal those of ReaderCore on   *)
(*             the whole input (relation P_C04),                            *)
(*   WinInv    the window invariants after every call,                      *)
(*   CapInv    the capacity equals ReaderCore's abstraction of it (C17).    *)
(* With WithErrors the source additionally fails once, at any point of the *)
(* schedule (C05): ErrSurfaces - the call during which it fails returns    *)
(* the read error (never None, an item or another error), everything       *)
(* before it is what ReaderCore yields, and the window stays consistent.   *)
(***************************************************************************)
EXTENDS ReaderBuf, Schemas, TLC
CONSTANTS Caps, MaxDoc, WithPauses, WithErrors
VARIABLES inp, cfg, r, s, out
vars == <<inp, cfg, r, s, out>>
P04 == INSTANCE P_C04

Base == [allowId |-> FALSE, allowHier |-> FALSE, allowSize |-> FALSE, hasMax |-> FALSE, max |-> <<>>, buffered |-> {}, eofClose |-> TRUE, cap0 |-> 16]
Bin(n) == [i \in 1..n |-> (i * 7) % 251]
\* <<input, configuration, positions where the source may pause>>
Docs == <<
  << <<129, 133, 137, 129, 1, 137, 129, 2>>, Base, {0, 2, 5} >>,                                                        \* A{P P} (size wrong on purpose: overrun)
  << <<129, 134, 137, 129, 1, 137, 129, 2, 139, 128>>, Base, {0, 2, 5, 8} >>,                                         \* A{P P} R2{}
  << <<129, 1, 255, 255, 255, 255, 255, 255, 255, 137, 129, 7, 139, 128>>, Base, {0, 9, 12} >>,                         \* A with an 8-byte unknown-size field
  << <<129, 255, 130, 255, 131, 255, 132, 129, 1, 137, 129, 2>>, Base, {0, 2, 4, 6, 9} >>,                              \* nested unknown sizes closed by P
  << <<139, 148, 236, 146>> \o Bin(18), [Base EXCEPT !.hasMax = TRUE, !.max = <<0, 0, 0, 0, 0, 0, 1, 0>>], {0, 2} >>,    \* payload larger than capacity 16
  << <<129, 138, 130, 133, 131, 131, 132, 129, 9, 137, 129, 1, 139, 128>>, [Base EXCEPT !.buffered = {B}], {0, 2, 12} >>,\* buffered B
  << <<129, 138, 130, 133, 131, 131, 132, 129>>, Base, {0, 2, 4, 6} >>,                                                 \* truncated inside a header
  << <<129, 134, 137, 129, 1, 144, 129, 2, 139, 128>>, [Base EXCEPT !.allowId = TRUE], {0, 2, 5, 8} >>,                \* unknown id tolerated
  << <<64, 129, 64, 4, 137, 129, 1, 139>>, Base, {0} >>                                                                  \* 2-byte id not in the schema
>>
RECURSIVE Comps(_)
Comps(n) == IF n = 0 THEN {<<>>} ELSE UNION {{<<k>> \o c : c \in Comps(n - k)} : k \in 1..n}
\* pauses: a -1 step inserted where the cumulative delivery reaches a position of P
RECURSIVE WithP(_, _, _)
WithP(c, PS, acc) == IF c = <<>> THEN <<>>
                    ELSE (IF acc \in PS THEN <<-1>> ELSE <<>>) \o <<c[1]>> \o WithP(Tail(c), PS, acc + c[1])
Init == \E d \in 1..Len(Docs) : \E cap \in Caps : \E c \in Comps(Min(Len(Docs[d][1]), MaxDoc)) :
          \E PS \in (IF WithPauses THEN SUBSET Docs[d][3] ELSE {{}}) :
          /\ inp = Docs[d][1]
          /\ cfg = [Docs[d][2] EXCEPT !.cap0 = cap, !.eofClose = IF WithPauses THEN FALSE ELSE @]
          /\ r = InitReader /\ out = <<>>
          /\ \E k \in (IF WithErrors THEN 0..Len(WithP(c, PS, 0)) ELSE {-1}) :
               LET sc == WithP(c, PS, 0) IN
               s = InitBuf(cap, IF k < 0 THEN sc ELSE SubSeq(sc, 1, k) \o <<-2>> \o SubSeq(sc, k + 1, Len(sc)))
Done == out # <<>> /\ (out[Len(out)].res = "err" \/ (out[Len(out)].res = "none" /\ s.dlv = Len(inp) /\ s.sc = <<>>))
Call == /\ ~Done /\ Len(out) < 3 * Len(inp) + 12
        /\ LET n == NextCallB(S3, cfg, inp, r, s) IN
             r' = n.r /\ s' = n.s /\ out' = Append(out, IF n.res.res = "none" THEN [res |-> "none", pause |-> n.s.dlv < Len(inp)] ELSE n.res)
        /\ UNCHANGED <<inp, cfg>>
Next == Call
Spec == Init /\ [][Next]_vars

Whole == ParseAll(S3, cfg, inp)
Refines == (Done /\ ~WithErrors) => LET why == P04!Rel(Whole, out) IN why = "" \/ (PrintT(<<why, inp, cfg.cap0, s, out, Whole>>) /\ FALSE)
WinInv == s.ipos <= s.len /\ s.len <= s.cap /\ s.cap >= 16 /\ r.pos = CurOff(s) /\ (s.off >= 0 => WinEnd(s) = s.dlv)
CapInv == s.cap = Capacity(cfg.cap0, r)
Bounded == Len(out) <= 3 * Len(inp) + 12
\* C05: the failure of the source surfaces in the very call in which it happens, as the read error
Failed == \A i \in 1..Len(s.sc) : s.sc[i] # -2
IsIo(x) == x.res = "err" /\ x.ekind = "io"
ErrSurfaces == WithErrors =>
   /\ Failed => (out # <<>> /\ IsIo(out[Len(out)]))
   /\ \A i \in 1..Len(out) : IsIo(out[i]) => (i = Len(out) /\ Failed)
   /\ LET pre == SelectSeq(out, LAMBDA x : ~IsIo(x) /\ ~P04!IsPause(x)) IN
      \A i \in 1..Len(pre) : i <= Len(Whole) /\ P04!Rel(<<Whole[i]>>, <<pre[i]>>) = ""
=============================================================================
