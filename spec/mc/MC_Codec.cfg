SPECIFICATION Spec
CONSTANT MaxLen = 2
CHECK_DEADLOCK FALSE
INVARIANTS Inv_W Inv_Once
