------------------------------ MODULE VintArith ------------------------------
(***************************************************************************)
(* The arithmetic core of the vint codec over the integers, for *all*      *)
(* values (not a bounded enumeration): checked symbolically by Apalache.   *)
(* A w-byte vint carrying the value v (0 <= v < 2^(7w)) is the number      *)
(* Wire(v, w) = 2^(7w) + v written in w bytes: the marker is the bit 7w.   *)
(* Lemmas (C15): the first byte lies in [2^(8-w), 2^(9-w)) - so the length  *)
(* announced by its highest set bit is w -, stripping the marker gives v    *)
(* back, the value fits w bytes, and widths are canonical (a value that     *)
(* fits w-1 bytes is below 2^(7(w-1))).  Signed: the 7w-bit two's           *)
(* complement field represents exactly [-2^(7w-1), 2^(7w-1)).               *)
(* (C17: offsets and sizes below 2^56 never overflow 64-bit sums.)          *)
(***************************************************************************)
EXTENDS Integers

VARIABLES
  \* @type: Int;
  v,
  \* @type: Int;
  w,
  \* @type: Int;
  sv

\* @type: (Int) => Int;
Pow7(k) == CASE k = 0 -> 1 [] k = 1 -> 128 [] k = 2 -> 16384 [] k = 3 -> 2097152 [] k = 4 -> 268435456
             [] k = 5 -> 34359738368 [] k = 6 -> 4398046511104 [] k = 7 -> 562949953421312 [] OTHER -> 72057594037927936
\* @type: (Int) => Int;
Pow8(k) == CASE k = 0 -> 1 [] k = 1 -> 256 [] k = 2 -> 65536 [] k = 3 -> 16777216 [] k = 4 -> 4294967296
             [] k = 5 -> 1099511627776 [] k = 6 -> 281474976710656 [] k = 7 -> 72057594037927936 [] OTHER -> 18446744073709551616
\* @type: (Int) => Int;
Pow2(k) == CASE k = 0 -> 1 [] k = 1 -> 2 [] k = 2 -> 4 [] k = 3 -> 8 [] k = 4 -> 16 [] k = 5 -> 32 [] k = 6 -> 64 [] k = 7 -> 128 [] k = 8 -> 256 [] OTHER -> 512

Wire(val, wd) == Pow7(wd) + val
FirstByte(val, wd) == Wire(val, wd) \div Pow8(wd - 1)

Init == /\ w \in 1..8
        /\ v \in Int /\ 0 <= v /\ v < Pow7(w)
        /\ sv \in Int /\ -(Pow7(w) \div 2) <= sv /\ sv < Pow7(w) \div 2
Next == UNCHANGED <<v, w, sv>>

\* unsigned
MarkerLemma == /\ Pow2(8 - w) <= FirstByte(v, w) /\ FirstByte(v, w) < Pow2(9 - w)     \* the announced length is w
               /\ Wire(v, w) < Pow8(w)                                                  \* fits w bytes
               /\ Wire(v, w) - Pow7(w) = v                                              \* stripping the marker decodes
Canonical == \A u \in 1..8 : (u < w /\ v < Pow7(u)) => Wire(v, u) < Pow8(u)            \* shorter widths work exactly when the value is small enough
NoShorter == (w > 1 /\ v >= Pow7(w - 1)) => (Pow7(w - 1) + v >= 2 * Pow7(w - 1))        \* ... otherwise the marker position would be lost
\* signed: field = sv mod 2^(7w); decoding the field gives sv back
Field == IF sv >= 0 THEN sv ELSE sv + Pow7(w)
SignedLemma == /\ 0 <= Field /\ Field < Pow7(w)
               /\ (Field >= Pow7(w) \div 2) <=> (sv < 0)                                 \* the top bit of the field is the sign
               /\ (IF Field >= Pow7(w) \div 2 THEN Field - Pow7(w) ELSE Field) = sv
\* C17: sums of an offset and a declared size stay far below 2^63
NoOverflow == \A off \in {0, Pow7(8) - 1} : off + 16 + v < Pow8(8) \div 2
Lemma == MarkerLemma /\ Canonical /\ NoShorter /\ SignedLemma /\ NoOverflow
=============================================================================
