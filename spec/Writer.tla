------------------------------- MODULE Writer -------------------------------
(***************************************************************************)
(* Level 1 specification of TagWriter (src/tag_writer.rs).                 *)
(*                                                                         *)
(* State w: [open, wbuf, dest]                                             *)
(*   open  stack of open masters [id, known, start, width]: `start` is the *)
(*         offset in wbuf where a known-size master's header will be       *)
(*         spliced, `width` the requested size-field width (0 = default)   *)
(*   wbuf  bytes not yet handed to the destination (working_buffer)        *)
(*   dest  bytes the destination has accepted                              *)
(* A call is a record op:                                                   *)
(*   [k |-> "elem" | "start" | "end" | "full" | "rawtag" | "write_raw" |   *)
(*          "start_unknown_dep" | "flush" | "into_inner",                   *)
(*    id, ty, val, width (0..8), unknown (BOOLEAN), kids (for "full")]      *)
(* The size options of a call (width, unknown) say how a tag is *started*: an "end" ignores them.  The deprecated     *)
(* unknown-size call is the option-based call (for every variant of the tag).                                         *)
(* `val` is the tag's value as the reader reports it (8-byte words for     *)
(* numbers, bytes for strings / binary).                                    *)
(* Every rejected call leaves the state unchanged (property C19); the      *)
(* result is [res, w] with res = "ok" or the error class: "unexpected_tag",*)
(* "size", "id", "closing".  Destination I/O errors are not modelled: the  *)
(* properties promise nothing after them.                                   *)
(***************************************************************************)
EXTENDS Schema, Vint, Payload

InitWriter == [open |-> <<>>, wbuf |-> <<>>, dest |-> <<>>]
UnknownSizeField == <<1, 255, 255, 255, 255, 255, 255, 255>>       \* 8-byte all-ones
Chain(w) == [i \in 1..Len(w.open) |-> w.open[i].id]
KnownOpen(w) == \E i \in 1..Len(w.open) : w.open[i].known

\* size field for a payload / body of n bytes (n < 2^30)
SizeField(n, width) ==
  LET v == NatW8(n) IN
  IF width = 0 THEN LET w0 == MinWidth(v) IN AsVintW(v, IF IsAllOnes(v, w0) THEN w0 + 1 ELSE w0)   \* never the reserved pattern
  ELSE IF ~Fits(v, width) \/ IsAllOnes(v, width) THEN [t |-> "overflow"]      \* not representable as a *known* size
  ELSE AsVintW(v, width)

\* payload bytes of a value of type ty
PayloadOf(ty, val) == CASE ty = "uint" -> EncUInt(val) [] ty = "int" -> EncInt(val) [] ty = "float" -> EncFloat(val) [] OTHER -> val

Res(res, w) == [res |-> res, w |-> w]

\* hand over the working buffer when no known-size master is open (C10)
MaybeFlush(w) == IF KnownOpen(w) THEN w ELSE [w EXCEPT !.dest = @ \o w.wbuf, !.wbuf = <<>>]

EndTag(w, id) ==
  IF w.open = <<>> \/ w.open[Len(w.open)].id # id THEN Res("closing", w)           \* not the innermost open master
  ELSE LET top == w.open[Len(w.open)]  rest == SubSeq(w.open, 1, Len(w.open) - 1) IN
    IF ~top.known THEN Res("ok", [w EXCEPT !.open = rest])
    ELSE LET sf == SizeField(Len(w.wbuf) - top.start, top.width) IN
      IF sf.t # "ok" THEN Res("size", w)
      ELSE Res("ok", [w EXCEPT !.open = rest,
                               !.wbuf = SubSeq(@, 1, top.start) \o id \o sf.bytes \o SubSeq(@, top.start + 1, Len(@))])

RECURSIVE WriteOp(_, _, _)
RECURSIVE WriteKids(_, _, _, _, _)
KidK(k) == IF k.kind \in {"full", "start", "end"} THEN k.kind ELSE "elem"
\* one tag, without the final hand-over
WriteOp(sch, w, op) ==
  LET ty == TypeOf(sch, op.id) IN
  IF op.k = "end" THEN EndTag(w, op.id)
  ELSE IF op.unknown /\ ty # "master" THEN Res("size", w)                           \* unknown size only for masters
  ELSE IF op.unknown /\ op.k = "full" THEN Res("size", w)                            \* ... and only when one is started: a Full item cannot be of unknown size
  ELSE IF ty # "raw" /\ ~PathAllows(sch, op.id, Chain(w)) THEN Res("unexpected_tag", w)   \* C11: also for unknown-size starts
  ELSE IF ty = "master" THEN
    IF op.unknown THEN
      Res("ok", [w EXCEPT !.wbuf = @ \o op.id \o UnknownSizeField,
                          !.open = Append(@, [id |-> op.id, known |-> FALSE, start |-> 0, width |-> 0])])
    ELSE LET w1 == [w EXCEPT !.open = Append(@, [id |-> op.id, known |-> TRUE, start |-> Len(w.wbuf), width |-> op.width])] IN
      IF op.k = "start" THEN Res("ok", w1)
      ELSE \* "full": Start, children (default options), End - all or nothing
        LET kw == WriteKids(sch, w1, op.kids, 1, Len(w.open)) IN
        IF kw.res # "ok" THEN Res(kw.res, w)
        ELSE IF Len(kw.w.open) # Len(w1.open) THEN Res("closing", w)           \* a Start child was left open
        ELSE LET e == EndTag(kw.w, op.id) IN IF e.res = "ok" THEN e ELSE Res(e.res, w)
  ELSE IF ty = "raw" /\ ~WellFormedId(op.id) THEN Res("id", w)
  ELSE LET pl == PayloadOf(ty, op.val)  sf == SizeField(Len(pl), op.width) IN
    IF sf.t # "ok" THEN Res("size", w)
    ELSE Res("ok", [w EXCEPT !.wbuf = @ \o op.id \o sf.bytes \o pl])
\* children of a Full item: complete tags, or Start ... End runs of their own; an End child can only end a master that an
\* earlier child started - never the Full master itself or anything that was open before the call (`base` masters)
WriteKids(sch, w, kids, i, base) ==
  IF i > Len(kids) THEN Res("ok", w)
  ELSE LET k == kids[i] IN
       IF k.kind = "end" /\ Len(w.open) <= base + 1 THEN Res("closing", w)
       ELSE LET r == WriteOp(sch, w, [k |-> KidK(k), id |-> k.id, ty |-> k.ty, val |-> k.val,
                                     width |-> 0, unknown |-> FALSE, kids |-> k.kids]) IN
            IF r.res # "ok" THEN r ELSE WriteKids(sch, r.w, kids, i + 1, base)

\* close every open master, innermost first; stops at the first master whose size does not fit its width
RECURSIVE CloseAll(_)
CloseAll(w) == IF w.open = <<>> THEN Res("ok", w)
               ELSE LET e == EndTag(w, w.open[Len(w.open)].id) IN IF e.res # "ok" THEN e ELSE CloseAll(e.w)

(* --------------------------- public calls --------------------------- *)
WriteCall(sch, w, op) ==
  IF op.k \in {"flush", "into_inner"} THEN
    \* all or nothing: a master whose size does not fit its width makes the call fail before anything is ended (C19)
    LET c == CloseAll(w) IN IF c.res # "ok" THEN Res(c.res, w) ELSE Res("ok", [c.w EXCEPT !.dest = @ \o c.w.wbuf, !.wbuf = <<>>])
  ELSE IF op.k = "write_raw" THEN           \* no validation at all (outside every listed property)
    LET sf == SizeField(Len(op.val), 0) IN Res("ok", MaybeFlush([w EXCEPT !.wbuf = @ \o WStrip(op.id) \o sf.bytes \o op.val]))
  ELSE IF op.k = "start_unknown_dep" THEN   \* deprecated call = option-based unknown-size start (C09)
    WriteOp(sch, w, [op EXCEPT !.k = "start", !.unknown = TRUE])
  ELSE LET r == WriteOp(sch, w, op) IN
    IF r.res # "ok" THEN r
    ELSE IF op.unknown /\ op.k # "end" THEN r  \* an unknown-size start does not hand anything over by itself (code)
    ELSE Res("ok", MaybeFlush(r.w))

\* a whole call sequence
RECURSIVE RunOps(_, _, _, _)
RunOps(sch, w, ops, i) == IF i > Len(ops) THEN w ELSE RunOps(sch, WriteCall(sch, w, ops[i]).w, ops, i + 1)
=============================================================================
