------------------------------- MODULE Payload -------------------------------
(***************************************************************************)
(* Element payload codecs: arr_to_u64 / arr_to_i64 / arr_to_f64 of         *)
(* tools.rs, UTF-8 validity, and the writer's payload encoders             *)
(* (tag_writer.rs write_*_tag).  Values are 8-byte words: u64 big-endian,  *)
(* i64 two's complement, f64 IEEE-754 bits.                                *)
(***************************************************************************)
EXTENDS Bytes

ArrToU64(s) == IF Len(s) > 8 THEN [t |-> "err"] ELSE [t |-> "ok", val |-> WPad(s, 8)]
\* sign extension from the slice length; the empty slice means 0
ArrToI64(s) == IF Len(s) > 8 THEN [t |-> "err"]
               ELSE IF s = <<>> THEN [t |-> "ok", val |-> Zeros(8)]
               ELSE [t |-> "ok", val |-> Fill(8 - Len(s), IF s[1] >= 128 THEN 255 ELSE 0) \o s]

(* IEEE-754 binary32 -> binary64, exact (every f32 is representable).  Bits MSB first. *)
HighestSet(m) == CHOOSE k \in 1..Len(m) : m[k] = 1 /\ \A j \in 1..(k - 1) : m[j] = 0
NatBits(n, k) == [i \in 1..k |-> (n \div (2 ^ (k - i))) % 2]
WidenBits(b) ==               \* b: 32 bits
  LET sgn == b[1]   e == BitsNat(SubSeq(b, 2, 9))   m == SubSeq(b, 10, 32) IN
  IF e = 255 THEN <<sgn>> \o Fill(11, 1) \o m \o Zeros(29)        \* inf / NaN (payload kept)
  ELSE IF e = 0 THEN
       IF AllBits(m, 0) THEN <<sgn>> \o Zeros(63)                  \* +-0
       ELSE LET k == HighestSet(m)                                  \* subnormal: m * 2^-149
                \* leading 1 at index k of 23 -> value 1.f * 2^(-126-k); exponent field 1023-126-k
            IN <<sgn>> \o NatBits(897 - k, 11) \o SubSeq(m, k + 1, 23) \o Zeros(52 - (23 - k))
  ELSE <<sgn>> \o NatBits(e + 896, 11) \o m \o Zeros(29)           \* normal: rebias 127 -> 1023
IsNaN64(v8) == LET b == WBits(v8) IN AllBits(SubSeq(b, 2, 12), 1) /\ ~AllBits(SubSeq(b, 13, 64), 0)
IsNaN32(v4) == LET b == WBits(v4) IN AllBits(SubSeq(b, 2, 9), 1) /\ ~AllBits(SubSeq(b, 10, 32), 0)
ArrToF64(s) == IF Len(s) = 8 THEN [t |-> "ok", val |-> s]
               ELSE IF Len(s) = 4 THEN [t |-> "ok", val |-> BitsW(WidenBits(WBits(s)))]
               ELSE [t |-> "err"]
\* equality of float results: bit-for-bit, except that a NaN only has to stay a NaN
FloatEq(a8, b8) == a8 = b8 \/ (IsNaN64(a8) /\ IsNaN64(b8))

(* the writer's integer payload widths: minimal of 1, 2, 4, 8 bytes *)
UWidth(v8) == LET n == Len(WStrip(v8)) IN IF n <= 1 THEN 1 ELSE IF n = 2 THEN 2 ELSE IF n <= 4 THEN 4 ELSE 8
EncUInt(v8) == Drop(WPad(v8, 8), 8 - UWidth(v8))
\* v fits k bytes as two's complement iff the top 64-8k+1 bits are equal
SFitsBytes(v8, k) == LET b == WBits(WPad(v8, 8)) IN \A i \in 1..(64 - 8 * k + 1) : b[i] = b[1]
IWidth(v8) == IF SFitsBytes(v8, 1) THEN 1 ELSE IF SFitsBytes(v8, 2) THEN 2 ELSE IF SFitsBytes(v8, 4) THEN 4 ELSE 8
EncInt(v8) == Drop(WPad(v8, 8), 8 - IWidth(v8))
EncFloat(v8) == v8

(* UTF-8 validity (RFC 3629: no overlongs, no surrogates, <= U+10FFFF) *)
In(b, lo, hi) == lo <= b /\ b <= hi
Cont(s, i) == i <= Len(s) /\ In(s[i], 128, 191)
RECURSIVE Utf8From(_, _)
Utf8From(s, i) ==
  IF i > Len(s) THEN TRUE
  ELSE LET b == s[i] IN
    IF b <= 127 THEN Utf8From(s, i + 1)
    ELSE IF In(b, 194, 223) THEN Cont(s, i + 1) /\ Utf8From(s, i + 2)
    ELSE IF b = 224 THEN i + 1 <= Len(s) /\ In(s[i + 1], 160, 191) /\ Cont(s, i + 2) /\ Utf8From(s, i + 3)
    ELSE IF In(b, 225, 236) \/ In(b, 238, 239) THEN Cont(s, i + 1) /\ Cont(s, i + 2) /\ Utf8From(s, i + 3)
    ELSE IF b = 237 THEN i + 1 <= Len(s) /\ In(s[i + 1], 128, 159) /\ Cont(s, i + 2) /\ Utf8From(s, i + 3)
    ELSE IF b = 240 THEN i + 1 <= Len(s) /\ In(s[i + 1], 144, 191) /\ Cont(s, i + 2) /\ Cont(s, i + 3) /\ Utf8From(s, i + 4)
    ELSE IF In(b, 241, 243) THEN Cont(s, i + 1) /\ Cont(s, i + 2) /\ Cont(s, i + 3) /\ Utf8From(s, i + 4)
    ELSE IF b = 244 THEN i + 1 <= Len(s) /\ In(s[i + 1], 128, 143) /\ Cont(s, i + 2) /\ Cont(s, i + 3) /\ Utf8From(s, i + 4)
    ELSE FALSE
Utf8Valid(s) == Utf8From(s, 1)

(* decode a payload according to the element type: value, or "err" *)
Decode(ty, s) ==
  CASE ty = "uint"  -> ArrToU64(s)
    [] ty = "int"   -> ArrToI64(s)
    [] ty = "float" -> ArrToF64(s)
    [] ty = "utf8"  -> IF Utf8Valid(s) THEN [t |-> "ok", val |-> s] ELSE [t |-> "err"]
    [] OTHER        -> [t |-> "ok", val |-> s]            \* "bin", "raw"
=============================================================================
