------------------------------ MODULE ReaderBuf ------------------------------
(***************************************************************************)
(* Level 1, refined: TagIterator with its internal buffer window and the   *)
(* source's read schedule (src/tag_iterator.rs private_read,               *)
(* ensure_capacity, ensure_data_read, peek_tag_id, peek_valid_tag_header,  *)
(* read_tag_data, read_tag_checked).  ReaderCore is the abstraction in     *)
(* which the whole input is visible; here only the bytes inside the window *)
(* are, and they arrive as the schedule dictates.  The claim checked by    *)
(* MC_ReaderBuf (C04): for every schedule and capacity the results of      *)
(* successive calls are those of ReaderCore on the whole input - the       *)
(* window is invisible.                                                     *)
(*                                                                         *)
(* s: [off, ipos, len, cap, dlv, sc, paused]                                *)
(*   off     buffer_offset (-1: nothing read yet)                           *)
(*   ipos    internal_buffer_position      len  buffered_byte_length        *)
(*   cap     buffer capacity                                                 *)
(*   dlv     bytes the source has delivered so far                          *)
(*   sc      remaining read schedule: n > 0 "n bytes are available now",    *)
(*           0 one Ok(0), -1 "no data until the current call has returned", *)
(*           -2 the read fails (the error surfaces as the read error of the *)
(*           call, C05; what was buffered stays buffered)                   *)
(*   paused  the -1 step is in force                                        *)
(* Because the window always mirrors inp[off .. off+len), the buffer's     *)
(* content need not be stored: decoding "only valid bytes" is decoding the  *)
(* prefix of inp that ends where the window ends.                           *)
(***************************************************************************)
EXTENDS ReaderCore

InitBuf(cap0, sched) == [off |-> -1, ipos |-> 0, len |-> 0, cap |-> Max(cap0, 16), dlv |-> 0, sc |-> sched, paused |-> FALSE]
BufOff(s) == IF s.off < 0 THEN 0 ELSE s.off
CurOff(s) == BufOff(s) + s.ipos                       \* current_offset()
WinEnd(s) == BufOff(s) + s.len                        \* absolute end of the valid bytes
Valid(inp, s) == Take(inp, WinEnd(s))

\* one Read::read into a buffer with `room` free bytes: [n, s, io]
SrcRead(inp, s, room) ==
  LET left == Len(inp) - s.dlv IN
  IF s.paused THEN [n |-> 0, s |-> s, io |-> FALSE]
  ELSE IF s.sc = <<>> THEN LET n == Min(room, left) IN [n |-> n, s |-> [s EXCEPT !.dlv = @ + n], io |-> FALSE]
  ELSE LET st == s.sc[1] IN
    IF st = 0 THEN [n |-> 0, s |-> [s EXCEPT !.sc = Tail(@)], io |-> FALSE]
    ELSE IF st = -1 THEN [n |-> 0, s |-> [s EXCEPT !.sc = Tail(@), !.paused = TRUE], io |-> FALSE]
    ELSE IF st < -1 THEN [n |-> 0, s |-> [s EXCEPT !.sc = Tail(@)], io |-> TRUE]
    ELSE LET n == Min(Min(st, room), left) IN
         [n |-> n, s |-> [s EXCEPT !.dlv = @ + n, !.sc = IF n < st /\ n < left THEN <<st - n>> \o Tail(@) ELSE Tail(@)], io |-> FALSE]

\* ensure_data_read(length): [ok, s, io]  (io: the source failed - nothing was added, a compaction that preceded it stays)
RECURSIVE EnsureLoop(_, _, _)
EnsureLoop(inp, s, length) ==
  IF s.ipos + length <= s.len THEN [ok |-> TRUE, s |-> s, io |-> FALSE]
  ELSE LET c == [s EXCEPT !.len = s.len - s.ipos, !.off = s.off + s.ipos, !.ipos = 0]      \* compaction keeps the current offset
           rd == SrcRead(inp, c, c.cap - c.len) IN
       IF rd.io THEN [ok |-> FALSE, s |-> rd.s, io |-> TRUE]
       ELSE IF rd.n = 0 THEN [ok |-> FALSE, s |-> rd.s, io |-> FALSE]
       ELSE EnsureLoop(inp, [rd.s EXCEPT !.len = @ + rd.n], length)
Ensure(inp, s, length) ==
  IF s.ipos + length <= s.len THEN [ok |-> TRUE, s |-> s, io |-> FALSE]
  ELSE IF s.off < 0 THEN                                  \* very first read: a single read, whatever it returns
    LET rd == SrcRead(inp, s, s.cap) IN
    IF rd.io THEN [ok |-> FALSE, s |-> rd.s, io |-> TRUE]
    ELSE IF rd.n = 0 THEN [ok |-> FALSE, s |-> rd.s, io |-> FALSE]
    ELSE [ok |-> TRUE, s |-> [rd.s EXCEPT !.off = 0, !.ipos = 0, !.len = @ + rd.n], io |-> FALSE]
  ELSE EnsureLoop(inp, s, length)
IoErr == ErrRec("io", -1, FALSE, <<>>, FALSE, <<>>, FALSE, <<>>, FALSE, <<>>)

\* peek_valid_tag_header: two look-aheads (16, then 8 inside peek_tag_id), then the checks of ReaderCore on the valid bytes
PeekHeaderB(sch, cfg, inp, r, s) ==
  LET e1 == Ensure(inp, s, 16) IN
  IF e1.io THEN [ph |-> [t |-> "err", r |-> r, e |-> IoErr], s |-> e1.s]
  ELSE LET e2 == Ensure(inp, e1.s, 8) IN
  IF e2.io THEN [ph |-> [t |-> "err", r |-> r, e |-> IoErr], s |-> e2.s]
  ELSE [ph |-> PeekHeader(sch, cfg, Valid(inp, e2.s), [r EXCEPT !.pos = CurOff(e2.s)]), s |-> e2.s]

ReadTagB(sch, cfg, inp, r, s) ==
  LET start == CurOff(s)  p == PeekHeaderB(sch, cfg, inp, r, s) IN
  IF p.ph.t = "err" THEN [t |-> "err", r |-> p.ph.r, s |-> p.s, e |-> p.ph.e]
  ELSE LET h == p.ph.h  ty == p.ph.ty  r1 == p.ph.r  s1 == [p.s EXCEPT !.ipos = @ + h.hlen] IN
  IF ty = "master" THEN [t |-> "tag", r |-> r1, s |-> s1, master |-> TRUE, h |-> h, dstart |-> CurOff(s1),
                         it |-> Item("start", h.id, start, "master", <<>>, <<>>)]
  ELSE IF h.unk THEN [t |-> "err", r |-> r1, s |-> s1, e |-> DataErr("bad_data", start, h.id, <<>>)]
  ELSE LET s2 == [s1 EXCEPT !.cap = Max(@, h.size)]                      \* ensure_capacity: only now, after every check
           en == Ensure(inp, s2, h.size)
           r2 == [r1 EXCEPT !.grown = Max(@, h.size)] IN
    IF en.io THEN [t |-> "err", r |-> r2, s |-> en.s, e |-> IoErr]
    ELSE IF ~en.ok THEN [t |-> "err", r |-> r2, s |-> en.s,
                    e |-> EofErr(start, TRUE, h.id, TRUE, h.sizeW, TRUE, SubSeq(inp, CurOff(en.s) + 1, WinEnd(en.s)))]
    ELSE LET d == CurOff(en.s)  pl == SubSeq(inp, d + 1, d + h.size)  dec == Decode(ty, pl)
             s3 == [en.s EXCEPT !.ipos = @ + h.size] IN
      IF dec.t = "err" THEN [t |-> "err", r |-> r2, s |-> s3, e |-> ErrRec("tag_data", -1, TRUE, h.id, FALSE, <<>>, FALSE, <<>>, FALSE, <<>>)]
      ELSE [t |-> "tag", r |-> r2, s |-> s3, master |-> FALSE, h |-> h, dstart |-> d,
            it |-> Item(IF ty = "raw" THEN "raw" ELSE "elem", h.id, start, ty, dec.val, <<>>)]

RECURSIVE ReadNextB(_, _, _, _, _)
ReadNextB(sch, cfg, inp, r0, s0) ==
  LET r == CloseExhausted([r0 EXCEPT !.pos = CurOff(s0)])
      \* read_tag_checked: with the buffer used up, ask the source for one more byte before concluding "no more tags"
      probe == IF s0.ipos = s0.len THEN Ensure(inp, s0, 1) ELSE [ok |-> TRUE, s |-> s0, io |-> FALSE]
      s == probe.s IN
  IF probe.io THEN [r |-> [r EXCEPT !.queue = @ \o <<IoErr>>], s |-> s]
  ELSE IF ~probe.ok THEN
    [r |-> (IF cfg.eofClose THEN [r EXCEPT !.queue = @ \o EndsOf(r.stack, 1), !.stack = <<>>] ELSE r), s |-> s]
  ELSE LET rt == ReadTagB(sch, cfg, inp, r, s) IN
    IF rt.t = "err" THEN [r |-> [rt.r EXCEPT !.queue = @ \o <<rt.e>>], s |-> rt.s]
    ELSE LET r1 == rt.r
             k  == ClosedBy(sch, r1.stack, rt.it.id)
             r2 == [r1 EXCEPT !.queue = @ \o EndsOf(r1.stack, Len(r1.stack) - k + 1), !.stack = SubSeq(@, 1, Len(@) - k)] IN
      IF rt.master THEN
        LET m  == [id |-> rt.it.id, unk |-> rt.h.unk, size |-> rt.h.size, start |-> rt.it.off, dstart |-> rt.dstart, implied |-> FALSE]
            r3 == [r2 EXCEPT !.stack = Append(@, m)] IN
        [r |-> [r3 EXCEPT !.queue = Append(@, rt.it)], s |-> rt.s]
      ELSE [r |-> [r2 EXCEPT !.queue = Append(@, rt.it)], s |-> rt.s]

\* the emission-time assembly of buffered masters (ReaderCore!Assemble) over the window
RECURSIVE AssembleB(_, _, _, _, _)
AssembleB(sch, cfg, inp, r, s) ==
  IF ~FrontBuffered(cfg, r) THEN [ready |-> TRUE, r |-> r, s |-> s]
  ELSE LET st == r.queue[1]  e == EndOfBuffered(r.queue, st.id, 2, 0) IN
    IF e = 0 THEN
      LET n == ReadNextB(sch, cfg, inp, r, s) IN
      IF Len(n.r.queue) = Len(r.queue) THEN [ready |-> FALSE, r |-> n.r, s |-> n.s] ELSE AssembleB(sch, cfg, inp, n.r, n.s)
    ELSE IF r.queue[e].res = "err" THEN [ready |-> TRUE, r |-> [r EXCEPT !.queue = Drop(@, e - 1)], s |-> s]
    ELSE [ready |-> TRUE, s |-> s,
          r |-> [r EXCEPT !.queue = <<Item("full", st.id, st.off, "master", <<>>, RollUp(SubSeq(@, 2, e - 1)))>> \o Drop(@, e)]]

\* Iterator::next; the "no data for now" of the source ends with the call
NextCallB(sch, cfg, inp, r, s) ==
  LET n == IF r.queue = <<>> THEN ReadNextB(sch, cfg, inp, r, s) ELSE [r |-> r, s |-> s]
      a == AssembleB(sch, cfg, inp, n.r, n.s)
      s1 == [a.s EXCEPT !.paused = FALSE]
      r1 == [a.r EXCEPT !.pos = CurOff(s1)] IN
  IF ~a.ready \/ r1.queue = <<>> THEN [res |-> NoneRes, r |-> r1, s |-> s1]
  ELSE [res |-> r1.queue[1], r |-> [r1 EXCEPT !.queue = Tail(@)], s |-> s1]

\* window invariants
WinOk(s) == /\ s.ipos <= s.len /\ s.len <= s.cap /\ s.cap >= 16
            /\ s.off >= -1 /\ (WinEnd(s) = s.dlv \/ s.off < 0)         \* everything delivered is in the window or already consumed
=============================================================================
