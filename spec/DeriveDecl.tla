----------------------------- MODULE DeriveDecl -----------------------------
(***************************************************************************)
(* Reference semantics of the specification-declaration language of the    *)
(* derive macros (#[ebml_specification] on an enum with #[id],             *)
(* #[data_type], #[doc_path] attributes; easy_ebml! { Path/Name: Type = id *)
(* }), property C18.  A declaration D is a sequence of variants            *)
(*   [name, id (word), ty, path, has_id, has_ty, dup_id]                   *)
(* path: sequence of [k |-> "name", name] / [k |-> "glob", min, max]       *)
(* (-1 = bound absent).  Accepts(D) says which declarations compile;       *)
(* Table(D) is the meaning of an accepted declaration: the schema the      *)
(* generated code must implement (including the injected global elements   *)
(* Crc32 = 0xbf with path (1-) and Void = 0xec with path (-)).             *)
(***************************************************************************)
EXTENDS Schema

Crc32V == [name |-> "Crc32", id |-> <<191>>, ty |-> "Binary", path |-> <<[k |-> "glob", name |-> "", min |-> 1, max |-> -1]>>, has_id |-> TRUE, has_ty |-> TRUE, dup_id |-> FALSE]
VoidV  == [name |-> "Void",  id |-> <<236>>, ty |-> "Binary", path |-> <<[k |-> "glob", name |-> "", min |-> -1, max |-> -1]>>, has_id |-> TRUE, has_ty |-> TRUE, dup_id |-> FALSE]
All(D) == D \o <<Crc32V, VoidV>>                  \* the macro appends the two global elements before anything else
DeclTypes == {"Master", "UnsignedInt", "Integer", "Utf8", "Binary", "Float"}
TyName(t) == CASE t = "Master" -> "master" [] t = "UnsignedInt" -> "uint" [] t = "Integer" -> "int" [] t = "Utf8" -> "utf8"
               [] t = "Binary" -> "bin" [] t = "Float" -> "float" [] OTHER -> "raw"

HasName(V, n) == \E i \in 1..Len(V) : V[i].name = n
ByName(V, n) == V[CHOOSE i \in 1..Len(V) : V[i].name = n]
NameIdx(p) == {i \in 1..Len(p) : p[i].k = "name"}
HasParent(v) == NameIdx(v.path) # {}
\* the nearest named parent: the last name in the path
ParentName(v) == v.path[CHOOSE i \in NameIdx(v.path) : \A j \in NameIdx(v.path) : j <= i].name
PartEq(a, b) == a.k = b.k /\ (IF a.k = "name" THEN a.name = b.name ELSE a.min = b.min /\ a.max = b.max)

\* per-variant syntax rules (ast.rs)
VariantOk(V, v) ==
  /\ v.has_id /\ v.has_ty /\ ~v.dup_id /\ v.ty \in DeclTypes
  /\ \A i \in 1..Len(v.path) : v.path[i].k = "name" => HasName(V, v.path[i].name)
  /\ \A i \in 1..Len(v.path) : v.path[i].k = "glob" => v.path[i].max # 0
  /\ \A i \in 1..(Len(v.path) - 1) : ~(v.path[i].k = "glob" /\ v.path[i + 1].k = "glob")
\* every variant with a named parent: the nearest named parent is a master, and the variant's path is exactly the
\* parent's declared path, the parent itself, and at most a trailing placeholder ("extends its parent's declared
\* path").  Checked for every variant, so by induction every named part is a master and no variant is its own ancestor.
ParentIdx(v) == CHOOSE i \in NameIdx(v.path) : \A j \in NameIdx(v.path) : j <= i
PartsEq(a, b) == Len(a) = Len(b) /\ \A i \in 1..Len(a) : PartEq(a[i], b[i])
ChainOk(V, v) ==
  HasParent(v) => LET par == ByName(V, ParentName(v)) IN
                  /\ par.ty = "Master"
                  /\ PartsEq(par.path, SubSeq(v.path, 1, ParentIdx(v) - 1))
Accepts(D) ==
  LET V == All(D) IN
  /\ \A i \in 1..Len(V) : VariantOk(V, V[i])
  /\ \A i, j \in 1..Len(V) : V[i].id = V[j].id => i = j
  /\ \A i, j \in 1..Len(D) : D[i].name = D[j].name => i = j          \* (an enum cannot repeat a variant name)
  /\ \A i \in 1..Len(V) : ChainOk(V, V[i])

\* the meaning of an accepted declaration, as a Schema
\* mset: the declaration spells out a minimum - "(0-2)" and "(-2)" mean the same, but the generated table reports what was written
PartOf(V, p) == IF p.k = "name" THEN [k |-> "id", id |-> ByName(V, p.name).id, min |-> 0, max |-> 0, mset |-> FALSE]
                ELSE [k |-> "glob", id |-> <<>>, min |-> IF p.min < 0 THEN 0 ELSE p.min, max |-> p.max, mset |-> p.min >= 0]
Table(D) == LET V == All(D) IN
  [i \in 1..Len(V) |-> [id |-> V[i].id, ty |-> TyName(V[i].ty), path |-> [k \in 1..Len(V[i].path) |-> PartOf(V, V[i].path[k])]]]
=============================================================================
