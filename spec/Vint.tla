-------------------------------- MODULE Vint --------------------------------
(***************************************************************************)
(* The variable-length integer codec of RFC 8794 as ebml-iterable exposes  *)
(* it in tools.rs (as_vint, as_vint_with_length, read_vint, the signed     *)
(* variants, is_vint).  Independent executable reference: written from the *)
(* RFC, over words / bit strings, not transcribed from the Rust code.      *)
(* Values are words (Bytes.tla); a result is a record with a tag `t`.      *)
(***************************************************************************)
EXTENDS Bytes

Widths == 1..8
VLen(b) == 8 - Log2(b)                   \* length announced by a first byte b # 0
Marker(w) == 2 ^ (8 - w)                 \* marker bit inside the first byte of a w-byte vint

(* ------------------------------ unsigned ------------------------------ *)
\* decode the vint at the beginning of the byte sequence s
ReadVint(s) ==
  IF s = <<>> THEN [t |-> "more"]
  ELSE IF s[1] = 0 THEN [t |-> "err"]                      \* marker beyond 8 bytes: not representable
  ELSE LET n == VLen(s[1]) IN
       IF n > Len(s) THEN [t |-> "more"]                    \* proper prefix of a vint
       ELSE [t |-> "ok", len |-> n, val |-> W8(<<s[1] - Marker(n)>> \o SubSeq(s, 2, n))]

Fits(v, w) == WBitLen(v) <= 7 * w        \* v < 2^(7w)
\* fixed-width encoder: exactly w bytes or overflow
AsVintW(v, w) ==
  IF ~Fits(v, w) THEN [t |-> "overflow"]
  ELSE LET p == WPad(WStrip(v), w) IN [t |-> "ok", bytes |-> <<p[1] + Marker(w)>> \o Tail(p)]
MinWidth(v) == CHOOSE w \in Widths : Fits(v, w) /\ \A u \in 1..(w - 1) : ~Fits(v, u)
\* default encoder: shortest width, overflow iff v >= 2^56
AsVint(v) == IF ~Fits(v, 8) THEN [t |-> "overflow"] ELSE AsVintW(v, MinWidth(v))

\* the reserved "unknown size" pattern: value field all ones
AllOnesVal(w) == W8(<<Marker(w) - 1>> \o Fill(w - 1, 255))
IsAllOnes(v, w) == WEq(v, AllOnesVal(w))

\* is_vint: the value, written without leading zero bytes, carries its own length marker
WellFormedId(v) == LET s == WStrip(v) IN s # <<>> /\ Len(s) <= 8 /\ VLen(s[1]) = Len(s)

(* ------------------------------- signed ------------------------------- *)
(* A signed vint of width w carries a two's-complement field of 7w bits    *)
(* below the marker.  Values are 8-byte two's-complement words.            *)
SBits(v8) == WBits(WPad(v8, 8))                              \* 64 bits
\* v in [-2^(7w-1), 2^(7w-1)):  the top 64-7w+1 bits all equal the sign
SFitsWeak(v8, w) == LET b == SBits(v8) IN \A i \in 1..(64 - 7 * w + 1) : b[i] = b[1]
\* ... and v # -2^(7w-1)  (the property speaks of values *strictly inside* the range)
SIsLowest(v8, w) == LET b == SBits(v8) IN
                    /\ \A i \in 1..(64 - 7 * w + 1) : b[i] = 1
                    /\ \A i \in (64 - 7 * w + 2)..64 : b[i] = 0
SFits(v8, w) == SFitsWeak(v8, w) /\ ~SIsLowest(v8, w)
\* the encoding of a fitting value: marker, then the low 7w bits
SEnc(v8, w) == LET b == SBits(v8) IN
               BitsW(Zeros(w - 1) \o <<1>> \o SubSeq(b, 64 - 7 * w + 1, 64))
SMinWidth(v8) == CHOOSE w \in Widths : SFits(v8, w) /\ \A u \in 1..(w - 1) : ~SFits(v8, u)
\* what the fixed-width encoder may answer (a set: at exactly -2^(7w-1) the property is silent,
\* so both "rejected" and "encoded correctly" are admitted)
SAsVintWSet(v8, w) ==
  IF SFits(v8, w) THEN {[t |-> "ok", bytes |-> SEnc(v8, w)]}
  ELSE IF SFitsWeak(v8, w) THEN {[t |-> "overflow"], [t |-> "ok", bytes |-> SEnc(v8, w)]}
  ELSE {[t |-> "overflow"]}
\* default encoder: shortest width; at a boundary value -2^(7u-1) the shorter width u is admitted too
SAsVintSet(v8) ==
  IF ~SFits(v8, 8) THEN (IF SFitsWeak(v8, 8) THEN {[t |-> "overflow"], [t |-> "ok", bytes |-> SEnc(v8, 8)]}
                                             ELSE {[t |-> "overflow"]})
  ELSE LET w == SMinWidth(v8) IN
       {[t |-> "ok", bytes |-> SEnc(v8, w)]} \cup
       {[t |-> "ok", bytes |-> SEnc(v8, u)] : u \in {x \in 1..(w - 1) : SIsLowest(v8, x)}}
SReadVint(s) ==
  IF s = <<>> THEN [t |-> "more"]
  ELSE IF s[1] = 0 THEN [t |-> "err"]
  ELSE LET n == VLen(s[1]) IN
       IF n > Len(s) THEN [t |-> "more"]
       ELSE LET f == SubSeq(WBits(SubSeq(s, 1, n)), n + 1, 8 * n)      \* the 7n-bit field
            IN [t |-> "ok", len |-> n, val |-> BitsW(Fill(64 - 7 * n, f[1]) \o f)]
=============================================================================
