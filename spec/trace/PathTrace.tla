------------------------------ MODULE PathTrace ------------------------------
(* Validates recorded hierarchy verdicts of the real TagWriter and strict TagIterator  *)
(* (driver `paths`) against P_C11: one step per `path` event, schema from the case.    *)
EXTENDS TraceBase, Schema
VARIABLES l, sch, cn
P11 == INSTANCE P_C11
Init == l = 1 /\ sch = <<>> /\ cn = -1
Next == /\ l <= NRec /\ l' = l + 1
        /\ LET e == Rec[l] IN
           IF e.ev = "case" THEN sch' = e.schema /\ cn' = e.n
           ELSE /\ UNCHANGED <<sch, cn>>
                /\ \/ e.ev # "path"
                   \/ (P11!WriterOk(sch, e) = "" /\ P11!ReaderOk(sch, e) = "")
                   \/ Reject(l, <<cn, IF P11!WriterOk(sch, e) # "" THEN P11!WriterOk(sch, e) ELSE P11!ReaderOk(sch, e)>>)
Spec == Init /\ [][Next]_<<l, sch, cn>>
=============================================================================
