----------------------------- MODULE ReaderTrace -----------------------------
(***************************************************************************)
(* Trace specification for recorded executions of the real TagIterator     *)
(* (and TagIteratorAsync).  One step per recorded event.  MODE             *)
(* (environment variable) selects what the events are checked against:     *)
(*   LB   like L1, against the windowed reader ReaderBuf under the recorded   *)
(*        read schedule: additionally buffer offset, position, valid length   *)
(*        and capacity (verif-hooks) after every call;                        *)
(*   L1   full conformance with the Level 1 design ReaderCore: every field  *)
(*        of every result of every call is bound (statistic / diagnosis,    *)
(*        never a verdict by itself);                                       *)
(*   Cxx  the property specification P_Cxx (Level 0): a monitor over the   *)
(*        observables that property constrains, advanced by every event of  *)
(*        a run, plus relations between the runs of a case evaluated at its *)
(*        `end` event (the verdict).                                        *)
(* A rejected case prints REJECT and is skipped up to the next `case`.     *)
(***************************************************************************)
EXTENDS TraceBase, ReaderBuf
VARIABLES l,        \* next line of Rec to consume
          c,        \* current case: [n, sch, start (line of the case event), hdr]
          run,      \* current run: [inp, cfg, tag, start]
          r,        \* Level 1 reader state (MODE = L1)
          m,        \* monitor state of the property specification (MODE = Cxx)
          skip      \* TRUE while the rest of a rejected case is skipped
vars == <<l, c, run, r, m, skip>>

P03 == INSTANCE P_C03
P04 == INSTANCE P_C04
P05 == INSTANCE P_C05
P06 == INSTANCE P_C06
P07 == INSTANCE P_C07
P08 == INSTANCE P_C08
P12 == INSTANCE P_C12
P13 == INSTANCE P_C13
P14 == INSTANCE P_C14
P17 == INSTANCE P_C17
Dev == INSTANCE Deviations

Mode == IF "MODE" \in DOMAIN IOEnv THEN IOEnv.MODE ELSE "L1"
SeqToSet(s) == {s[i] : i \in 1..Len(s)}
CfgOf(j) == [allowId |-> j.allowId, allowHier |-> j.allowHier, allowSize |-> j.allowSize, hasMax |-> j.hasMax,
             max |-> j.max, buffered |-> SeqToSet(j.buffered), eofClose |-> j.eofClose,
             cap0 |-> IF j.cap < 0 THEN 65536 ELSE j.cap]
Strict(cfg) == ~cfg.allowId /\ ~cfg.allowHier /\ ~cfg.allowSize

(* ---------------- Level 1: recorded result = specified result ---------------- *)
RECURSIVE KidsEq(_, _)
KidEq(a, b) == /\ a.kind = b.kind /\ a.id = b.id /\ a.ty = b.ty
               /\ (IF a.ty = "float" THEN FloatEq(a.val, b.val) ELSE a.val = b.val)
               /\ KidsEq(a.kids, b.kids)
KidsEq(x, y) == Len(x) = Len(y) /\ \A i \in 1..Len(x) : KidEq(x[i], y[i])
ResEq(e, s) ==
  /\ e.res = s.res
  /\ e.res = "item" => /\ e.off = s.off /\ KidEq(e, s)
  /\ e.res = "err"  => /\ e.ekind = s.ekind /\ e.pos = s.pos /\ e.has_id = s.has_id /\ e.id = s.id
                       /\ e.has_size = s.has_size /\ e.size = s.size /\ e.has_partial = s.has_partial
                       /\ e.partial = Take(s.partial, 4096) /\ e.partial_len = Len(s.partial)
                       /\ e.has_parent = s.has_parent /\ e.parent = s.parent
Brief(s) == IF s.res = "item" THEN <<s.kind, s.id, s.off>> ELSE IF s.res = "err" THEN <<s.ekind, s.pos, s.id>> ELSE <<s.res>>

(* ---------------- Level 0: dispatch to the property specification ---------------- *)
Trivial == [ok |-> TRUE, why |-> ""]
MonInit == CASE Mode = "C03" -> P03!M0 [] Mode = "C05" -> P05!M0 [] Mode = "C06" -> P06!M0
             [] Mode = "C07" -> P07!M0 [] Mode = "C14" -> P14!M0 [] Mode = "C17" -> P17!M0 [] OTHER -> Trivial
\* which runs a monitor speaks about
Applies == CASE Mode = "C06" -> Strict(run.cfg) [] OTHER -> TRUE
MonStep(e) ==
  IF ~Applies THEN m
  ELSE IF e.ev = "recover" /\ Mode \in {"C03", "C06", "C07"} THEN [m EXCEPT !.live = FALSE]   \* these speak about next() sequences
  ELSE CASE Mode = "C03" -> P03!Step(c.sch, run.inp, run.cfg, m, e)
         [] Mode = "C05" -> P05!Step(c.sch, run.inp, run.cfg, m, e)
         [] Mode = "C06" -> P06!Step(c.sch, run.inp, run.cfg, m, e)
         [] Mode = "C07" -> P07!Step(c.sch, run.inp, run.cfg, m, e)
         [] Mode = "C14" -> P14!Step(c.sch, run.inp, run.cfg, m, e)
         [] Mode = "C17" -> P17!Step(c.sch, run.inp, run.cfg, m, e)
         [] OTHER -> m
MonRead(e) == IF Mode = "C05" THEN P05!StepRead(run.inp, m, e) ELSE m

\* the runs of the current case, from the recorded lines a..b: [tag, inp, cfg, evs]
RECURSIVE CollectRuns(_, _, _)
CollectRuns(i, b, acc) ==
  IF i > b THEN acc
  ELSE LET e == Rec[i] IN
    IF e.ev = "run" THEN CollectRuns(i + 1, b, Append(acc, [tag |-> e.tag, inp |-> e.input, cfg |-> CfgOf(e.cfg), evs |-> <<>>,
                                                                    multi |-> IF "multi" \in DOMAIN e THEN e.multi ELSE FALSE,
                                                                    stream |-> IF "stream" \in DOMAIN e THEN e.stream ELSE FALSE]))
    ELSE IF e.ev \in {"next", "recover"} /\ acc # <<>> THEN CollectRuns(i + 1, b, [acc EXCEPT ![Len(acc)].evs = Append(@, e)])
    ELSE CollectRuns(i + 1, b, acc)
\* first non-empty string of a sequence of verdict strings
RECURSIVE FirstBad(_, _)
FirstBad(s, i) == IF i > Len(s) THEN "" ELSE IF s[i] # "" THEN s[i] ELSE FirstBad(s, i + 1)
Rel(h, runs) ==
  LET n == Len(runs)  rel == h.rel IN
  IF n = 0 THEN ""
  ELSE CASE Mode = "C07" /\ rel = "enc" ->
         FirstBad([i \in 1..n |-> IF i > 1 /\ ~P07!SameTags(runs[1].evs, runs[i].evs)
                                  THEN "C07: encoding " \o runs[i].tag \o " does not read as the same tags as the all-known-size encoding" ELSE ""], 1)
    [] Mode = "C08" /\ rel = "buf" ->
         FirstBad([i \in 1..n |-> IF i = 1 THEN ""
                                  ELSE IF ~P08!OnlyRequested(runs[i].evs, runs[i].cfg) THEN "C08: Full/Start items do not follow the requested buffered set"
                                  ELSE P08!Rel(runs[1].evs, runs[i].evs)], 1)
    [] Mode \in {"C04", "C20"} /\ rel = "sched" ->
         FirstBad([i \in 1..n |-> IF i = 1 THEN "" ELSE IF runs[i].stream THEN P04!RelNoOff(runs[1].evs, runs[i].evs) ELSE P04!Rel(runs[1].evs, runs[i].evs)], 1)
    [] Mode = "C12" /\ rel = "cut" ->
         FirstBad([i \in 1..n |-> IF i = 1 THEN "" ELSE P12!Rel(c.sch, runs[1].inp, runs[1].evs, runs[i].evs, Len(runs[i].inp))], 1)
    [] Mode = "C13" /\ rel = "tol" ->
         FirstBad([i \in 1..n |-> P13!RunOk(runs[i].cfg, runs[i].evs)], 1) \o
         (IF h.fault.class # "" THEN
            FirstBad([i \in 1..n |-> IF Strict(runs[i].cfg) THEN P13!FaultOk(h.fault, runs[i].evs)
                                     ELSE P13!ToleratedOk(h.fault, runs[i].cfg, runs[i].evs)], 1) ELSE "") \o
         (IF h.root THEN
            FirstBad([i \in 1..n |-> LET s == CHOOSE j \in 1..n : Strict(runs[j].cfg) /\ runs[j].cfg.hasMax = runs[i].cfg.hasMax /\ runs[j].cfg.max = runs[i].cfg.max
                                     IN P13!StrictPrefix(runs[s].evs, runs[i].evs)], 1) ELSE "")
    [] Mode = "C14" /\ rel = "junk" -> P14!Rel(runs[1].evs, runs[2].evs, h.at, h.n)
    [] OTHER -> ""

Init == l = 1 /\ c = [n |-> -1, sch |-> <<>>, start |-> 0, hdr |-> <<>>]
        /\ run = [inp |-> <<>>, cfg |-> <<>>, tag |-> "", start |-> 0]
        /\ r = InitReader /\ m = Trivial /\ skip = FALSE

StepCase(e) == /\ c' = [n |-> e.n, sch |-> e.schema, start |-> l, hdr |-> e]
               /\ skip' = (Mode \in {"L1", "LB"} /\ "big" \in DOMAIN e /\ e.big)      \* very long inputs: monitors only
               /\ run' = [inp |-> <<>>, cfg |-> <<>>, tag |-> "", start |-> 0] /\ r' = InitReader /\ m' = Trivial
StepRun(e)  == /\ run' = [inp |-> e.input, cfg |-> CfgOf(e.cfg), tag |-> e.tag, start |-> l]
               /\ r' = InitReader
               /\ m' = IF Mode = "LB"
                        THEN [ok |-> TRUE, why |-> "", s |-> InitBuf(CfgOf(e.cfg).cap0, e.sched),
                              live |-> ~("multi" \in DOMAIN e)]
                        ELSE IF Mode = "L1"     \* ReaderCore sees the whole input: runs whose source pauses, returns Ok(0) early or fails are LB's / the monitors' business
                        THEN [ok |-> TRUE, why |-> "", live |-> (\A i \in 1..Len(e.sched) : e.sched[i] > 0)]
                        ELSE MonInit
               /\ UNCHANGED <<c, skip>>
StepNextL1(e) ==
  IF "live" \in DOMAIN m /\ ~m.live THEN UNCHANGED <<c, run, r, m, skip>> ELSE
  LET s == NextCall(c.sch, run.cfg, run.inp, r) IN
  IF ResEq(e, s.res) /\ (("st" \in DOMAIN e) => e.st.cap = Capacity(run.cfg.cap0, s.r)) THEN r' = s.r /\ UNCHANGED <<c, run, m, skip>>
  ELSE Reject(l, <<"L1 next", c.n, run.tag, "expected", Brief(s.res), Capacity(run.cfg.cap0, s.r)>>) /\ skip' = TRUE /\ UNCHANGED <<c, run, r, m>>
StepRecoverL1(e) ==
  IF "live" \in DOMAIN m /\ ~m.live THEN UNCHANGED <<c, run, r, m, skip>> ELSE
  LET s == RecoverCall(c.sch, run.cfg, run.inp, r) IN
  IF (s.ok /\ e.res = "ok") \/ (~s.ok /\ e.res = "eof" /\ e.pos = s.e.pos) THEN r' = s.r /\ UNCHANGED <<c, run, m, skip>>
  ELSE Reject(l, <<"L1 recover", c.n, run.tag, "expected ok", s.ok>>) /\ skip' = TRUE /\ UNCHANGED <<c, run, r, m>>
\* MODE = LB: the monitor variable carries the window state s of ReaderBuf (live: until a try_recover; schedules with injected source errors are modelled)
StepNextLB(e) ==
  IF ~m.live THEN UNCHANGED <<c, run, r, m, skip>>
  ELSE LET n == NextCallB(c.sch, run.cfg, run.inp, r, m.s) IN
  IF /\ ResEq(e, n.res)
     /\ ("st" \in DOMAIN e) => /\ e.st.off = n.s.off /\ e.st.ipos = n.s.ipos /\ e.st.len = n.s.len /\ e.st.cap = n.s.cap
  THEN r' = n.r /\ m' = [m EXCEPT !.s = n.s] /\ UNCHANGED <<c, run, skip>>
  ELSE Reject(l, <<"LB next", c.n, run.tag, "expected", Brief(n.res), <<n.s.off, n.s.ipos, n.s.len, n.s.cap>>>>) /\ skip' = TRUE /\ UNCHANGED <<c, run, r, m>>
StepMon(e) ==
  LET m1 == IF e.ev = "read" THEN MonRead(e) ELSE MonStep(e) IN
  IF m1.ok THEN m' = m1 /\ UNCHANGED <<c, run, r, skip>>
  ELSE Reject(l, <<c.n, run.tag, m1.why>>) /\ skip' = TRUE /\ UNCHANGED <<c, run, r, m>>
\* a rejected relation may be explained by a listed deviation (second look, only after a rejection)
Explained(h, runs) ==
  LET n == Len(runs) IN
  IF Mode = "C08" /\ h.rel = "buf" /\ Dev!Listed("DEV_BUFFERED_EOF_NOCLOSE")
       /\ \A i \in 2..n : (P08!Rel(runs[1].evs, runs[i].evs) # "" =>
              /\ P08!FirstNonItem(runs[1].evs).res = "none"
              /\ LET u == P08!Unroll(P08!Items(runs[i].evs))  f == P08!Items(runs[1].evs) IN
                 /\ P08!PrefixSame(u, f, 1) /\ Len(u) < Len(f)
                 /\ Dev!BufferedEofNoClose(runs[i].cfg, P08!FirstNonItem(runs[i].evs), f[Len(u) + 1]))
       /\ \A j \in 2..n : P08!OnlyRequested(runs[j].evs, runs[j].cfg)
  THEN "DEV_BUFFERED_EOF_NOCLOSE"
  ELSE IF Mode = "C20" /\ h.rel = "sched" /\ Dev!Listed("DEV_ASYNC_STRADDLE")
       /\ \A i \in 2..n : ((IF runs[i].stream THEN P04!RelNoOff(runs[1].evs, runs[i].evs) ELSE P04!Rel(runs[1].evs, runs[i].evs)) # "" => runs[i].multi)
  THEN "DEV_ASYNC_STRADDLE"
  ELSE ""
StepEnd(e) ==
  LET runs == IF Mode \in {"L1", "LB"} \/ ~("rel" \in DOMAIN c.hdr) THEN <<>> ELSE CollectRuns(c.start + 1, l - 1, <<>>)
      why == IF runs = <<>> THEN "" ELSE Rel(c.hdr, runs) IN
  IF why = "" THEN UNCHANGED <<c, run, r, m, skip>>
  ELSE LET dev == Explained(c.hdr, runs) IN
       IF dev # "" THEN Known(l, dev, <<c.n, why>>) /\ UNCHANGED <<c, run, r, m, skip>>
       ELSE Reject(l, <<c.n, "end", why>>) /\ skip' = TRUE /\ UNCHANGED <<c, run, r, m>>

Next ==
  /\ l <= NRec
  /\ l' = l + 1
  /\ LET e == Rec[l] IN
     IF e.ev = "case" THEN StepCase(e)
     ELSE IF skip THEN UNCHANGED <<c, run, r, m, skip>>
     ELSE IF e.ev = "run" THEN StepRun(e)
     ELSE IF e.ev = "end" THEN StepEnd(e)
     ELSE IF Mode = "L1" THEN
          (IF e.ev = "next" THEN StepNextL1(e) ELSE IF e.ev = "recover" THEN StepRecoverL1(e) ELSE UNCHANGED <<c, run, r, m, skip>>)
     ELSE IF Mode = "LB" THEN
          (IF e.ev = "next" THEN StepNextLB(e)
           ELSE IF e.ev = "recover" THEN m' = [m EXCEPT !.live = FALSE] /\ UNCHANGED <<c, run, r, skip>>      \* try_recover is not part of ReaderBuf
           ELSE UNCHANGED <<c, run, r, m, skip>>)
     ELSE IF e.ev \in {"next", "recover", "read"} THEN StepMon(e)
     ELSE UNCHANGED <<c, run, r, m, skip>>
Spec == Init /\ [][Next]_vars
=============================================================================
