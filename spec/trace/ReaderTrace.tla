----------------------------- MODULE ReaderTrace -----------------------------
(***************************************************************************)
(* Trace specification for recorded executions of the real TagIterator.    *)
(* One step per recorded event.  MODE (environment variable) selects what  *)
(* the events are checked against:                                         *)
(*   L1   full conformance with the Level 1 design ReaderCore: every field  *)
(*        of every result of every call is bound (statistic / diagnosis,    *)
(*        never a verdict by itself);                                       *)
(*   Cxx  the property specification P_Cxx (Level 0): a monitor over the   *)
(*        observables that property constrains, plus relations between     *)
(*        the runs of a case evaluated at its `end` event (the verdict).   *)
(* A rejected case prints REJECT and is skipped up to the next `case`.     *)
(***************************************************************************)
EXTENDS TraceBase, ReaderCore
VARIABLES l,        \* next line of Rec to consume
          c,        \* current case: [n, sch, start (line of the case event)]
          run,      \* current run: [inp, cfg, tag, start]
          r,        \* Level 1 reader state (MODE = L1)
          skip      \* TRUE while the rest of a rejected case is skipped
vars == <<l, c, run, r, skip>>

Mode == IF "MODE" \in DOMAIN IOEnv THEN IOEnv.MODE ELSE "L1"
SeqToSet(s) == {s[i] : i \in 1..Len(s)}
CfgOf(j) == [allowId |-> j.allowId, allowHier |-> j.allowHier, allowSize |-> j.allowSize, hasMax |-> j.hasMax,
             max |-> j.max, buffered |-> SeqToSet(j.buffered), eofClose |-> j.eofClose]

(* equality of a recorded result with a specified one, on exactly the specified fields *)
RECURSIVE KidsEq(_, _)
KidEq(a, b) == /\ a.kind = b.kind /\ a.id = b.id /\ a.ty = b.ty
               /\ (IF a.ty = "float" THEN FloatEq(a.val, b.val) ELSE a.val = b.val)
               /\ KidsEq(a.kids, b.kids)
KidsEq(x, y) == Len(x) = Len(y) /\ \A i \in 1..Len(x) : KidEq(x[i], y[i])
ResEq(e, s) ==
  /\ e.res = s.res
  /\ e.res = "item" => /\ e.off = s.off /\ KidEq(e, s)
  /\ e.res = "err"  => /\ e.ekind = s.ekind /\ e.pos = s.pos /\ e.has_id = s.has_id /\ e.id = s.id
                       /\ e.has_size = s.has_size /\ e.size = s.size /\ e.has_partial = s.has_partial
                       /\ e.partial = Take(s.partial, 4096) /\ e.partial_len = Len(s.partial) /\ e.has_parent = s.has_parent /\ e.parent = s.parent
\* short description of a specified result, for REJECT lines
Brief(s) == IF s.res = "item" THEN <<s.kind, s.id, s.off>> ELSE IF s.res = "err" THEN <<s.ekind, s.pos, s.id>> ELSE <<s.res>>

Init == l = 1 /\ c = [n |-> -1, sch |-> <<>>, start |-> 0] /\ run = [inp |-> <<>>, cfg |-> <<>>, tag |-> "", start |-> 0]
        /\ r = InitReader /\ skip = FALSE

StepCase(e) == /\ c' = [n |-> e.n, sch |-> e.schema, start |-> l] /\ skip' = FALSE
               /\ run' = [inp |-> <<>>, cfg |-> <<>>, tag |-> "", start |-> 0] /\ r' = InitReader
StepRun(e)  == /\ run' = [inp |-> e.input, cfg |-> CfgOf(e.cfg), tag |-> e.tag, start |-> l]
               /\ r' = InitReader /\ UNCHANGED <<c, skip>>
StepNextL1(e) ==
  LET s == NextCall(c.sch, run.cfg, run.inp, r) IN
  IF ResEq(e, s.res) THEN r' = s.r /\ UNCHANGED <<c, run, skip>>
  ELSE Reject(l, <<"L1 next", c.n, run.tag, "expected", Brief(s.res)>>) /\ skip' = TRUE /\ UNCHANGED <<c, run, r>>
StepRecoverL1(e) ==
  LET s == RecoverCall(c.sch, run.cfg, run.inp, r) IN
  IF (s.ok /\ e.res = "ok") \/ (~s.ok /\ e.res = "eof" /\ e.pos = s.e.pos) THEN r' = s.r /\ UNCHANGED <<c, run, skip>>
  ELSE Reject(l, <<"L1 recover", c.n, run.tag, "expected ok", s.ok>>) /\ skip' = TRUE /\ UNCHANGED <<c, run, r>>

Next ==
  /\ l <= NRec
  /\ l' = l + 1
  /\ LET e == Rec[l] IN
     IF e.ev = "case" THEN StepCase(e)
     ELSE IF skip THEN UNCHANGED <<c, run, r, skip>>
     ELSE IF e.ev = "run" THEN StepRun(e)
     ELSE IF e.ev = "next" /\ Mode = "L1" THEN StepNextL1(e)
     ELSE IF e.ev = "recover" /\ Mode = "L1" THEN StepRecoverL1(e)
     ELSE UNCHANGED <<c, run, r, skip>>
Spec == Init /\ [][Next]_vars
=============================================================================
