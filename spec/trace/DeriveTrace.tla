----------------------------- MODULE DeriveTrace -----------------------------
(* Validates recorded macro verdicts (derive-probe) and probes of compiled generated code (gencrate) against P_C18. *)
EXTENDS TraceBase, Sequences
VARIABLE l
P18 == INSTANCE P_C18
Next == /\ l <= NRec /\ l' = l + 1
        /\ LET e == Rec[l] IN
           \/ e.ev \notin {"decl", "table"}
           \/ (e.ev = "decl" /\ P18!DeclOk(e) = "")
           \/ (e.ev = "table" /\ P18!TableOk(e) = "")
           \/ Reject(l, <<e.n, IF e.ev = "decl" THEN P18!DeclOk(e) ELSE P18!TableOk(e)>>)
Init == l = 1
Spec == Init /\ [][Next]_l
=============================================================================
