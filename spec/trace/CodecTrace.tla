----------------------------- MODULE CodecTrace -----------------------------
(***************************************************************************)
(* Validates recorded calls of the real codec functions (tools.rs, and the *)
(* writer's payload encoders) against the reference Vint / Payload:        *)
(* P_C15 and P_C16 are functions, so the property specification is         *)
(* "recorded output = reference output" (a set of admissible outputs where *)
(* the property is silent).  A panic matches nothing.                      *)
(***************************************************************************)
EXTENDS TraceBase, Vint, Payload
VARIABLE l

EncOk(e, r) == e.res = r.t /\ (r.t = "ok" => e.bytes = r.bytes)
DecOk(e, r) == e.res = r.t /\ (r.t = "ok" => e.len = r.len /\ e.val = r.val)
PayOk(e, r, float) == e.res = r.t /\ (r.t = "ok" => IF float THEN FloatEq(e.val, r.val) ELSE e.val = r.val)
\* element written by the real writer: id byte, one-byte size vint, payload; then read back
WrittenOk(e, payload) ==
   /\ e.res = "ok"
   /\ Len(e.bytes) = 2 + Len(payload)
   /\ ReadVint(Tail(e.bytes)) = [t |-> "ok", len |-> 1, val |-> NatW8(Len(payload))]
   /\ Drop(e.bytes, 2) = payload
   /\ e.val = e.in

EventOk(e) ==
  CASE e.fn = "as_vint"    -> EncOk(e, AsVint(e.in))
    [] e.fn = "as_vint_w"  -> EncOk(e, AsVintW(e.in, e.w))
    [] e.fn = "read_vint"  -> DecOk(e, ReadVint(e.in))
    [] e.fn = "is_vint"    -> e.res = (IF WellFormedId(e.in) THEN "true" ELSE "false")
    [] e.fn = "as_svint"   -> \E r \in SAsVintSet(e.in) : EncOk(e, r)
    [] e.fn = "as_svint_w" -> \E r \in SAsVintWSet(e.in, e.w) : EncOk(e, r)
    [] e.fn = "read_svint" -> DecOk(e, SReadVint(e.in))
    [] e.fn = "arr_to_u64" -> PayOk(e, ArrToU64(e.in), FALSE)
    [] e.fn = "arr_to_i64" -> PayOk(e, ArrToI64(e.in), FALSE)
    [] e.fn = "arr_to_f64" -> PayOk(e, ArrToF64(e.in), TRUE)
    [] e.fn = "write_uint" -> WrittenOk(e, EncUInt(e.in))
    [] e.fn = "write_int"  -> WrittenOk(e, EncInt(e.in))
    [] e.fn = "write_float" -> WrittenOk(e, EncFloat(e.in))
    [] OTHER -> FALSE

Init == l = 1
Next == /\ l <= NRec
        /\ l' = l + 1
        /\ LET e == Rec[l] IN
           \/ e.ev # "codec"
           \/ EventOk(e)
           \/ Reject(l, e.fn)
Spec == Init /\ [][Next]_l
=============================================================================
