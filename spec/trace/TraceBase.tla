----------------------------- MODULE TraceBase -----------------------------
(***************************************************************************)
(* Common part of every trace specification.  The recorded execution is    *)
(* the ndjson file named by the environment variable TRACE: one JSON       *)
(* object per event, in program order (single-threaded harness, events     *)
(* written at the return of each public call).  A trace module extends     *)
(* this one, declares the position variable `l` and consumes Rec[l] with   *)
(* one step per event.                                                      *)
(*                                                                         *)
(* Rejections do not block: a step whose event the specification does not  *)
(* allow prints a REJECT line (position, case number, reason) and the      *)
(* module skips to the next case, so that one rejection never leaves the   *)
(* rest of a batch unexamined (the in-TLC equivalent of bisecting the      *)
(* batch).  The run is accepted iff every line was consumed                *)
(* (POSTCONDITION on the diameter) and no REJECT line was printed.         *)
(***************************************************************************)
EXTENDS Integers, Sequences, TLC, Json, IOUtils

Rec == ndJsonDeserialize(IOEnv.TRACE)
NRec == Len(Rec)
Has(e, f) == f \in DOMAIN e
\* printed as one JSON line (PrintT of a tuple would be wrapped over several lines)
Reject(pos, why) == PrintT(ToJson(<<"REJECT", pos, why>>))
Known(pos, dev, why) == PrintT(ToJson(<<"KNOWN", pos, dev, why>>))
Stat(what) == PrintT(ToJson(<<"STAT", what>>))
\* names of the deviation actions enabled for this run (from known_findings.txt), comma separated
DevList == IF "DEVS" \in DOMAIN IOEnv THEN IOEnv.DEVS ELSE ""
\* every line consumed: one state per line plus the initial state
AllConsumed == \/ TLCGet("stats").diameter = NRec + 1
               \/ PrintT(ToJson(<<"UNCONSUMED", TLCGet("stats").diameter, NRec>>)) /\ FALSE
=============================================================================
