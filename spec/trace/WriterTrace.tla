----------------------------- MODULE WriterTrace -----------------------------
(***************************************************************************)
(* Trace specification for recorded executions of the real TagWriter (and  *)
(* strict read-backs of its output).  One step per event.  MODE selects:   *)
(*   L1   full conformance with the Level 1 design Writer: result, bytes   *)
(*        handed to the destination, open masters and buffer length        *)
(*        (verif-hooks) of every call are bound (statistic);               *)
(*   C01, C02, C09, C10, C19   the property specifications (verdict).      *)
(***************************************************************************)
EXTENDS TraceBase, WriterObs
VARIABLES l, c, w, m, skip
vars == <<l, c, w, m, skip>>

P01 == INSTANCE P_C01
P09 == INSTANCE P_C09
P10 == INSTANCE P_C10
P19 == INSTANCE P_C19
Mode == IF "MODE" \in DOMAIN IOEnv THEN IOEnv.MODE ELSE "L1"
Trivial == [ok |-> TRUE, why |-> ""]

OpenEq(st, open) == Len(st) = Len(open) /\ \A i \in 1..Len(open) :
   /\ st[i].id = open[i].id /\ st[i].known = open[i].known
   /\ open[i].known => (st[i].start = open[i].start /\ st[i].width = open[i].width)

\* runs of the current case from the recorded lines a..b: [tag, evs (write events), rb (read-back or <<>>), widths]
RECURSIVE CollectW(_, _, _, _)
CollectW(i, b, acc, widths) ==
  IF i > b THEN acc
  ELSE LET e == Rec[i] IN
    IF e.ev = "wrun" THEN CollectW(i + 1, b, Append(acc, [tag |-> e.tag, evs |-> <<>>, rb |-> <<>>, widths |-> widths]), <<>>)
    ELSE IF e.ev = "write" /\ acc # <<>> THEN CollectW(i + 1, b, [acc EXCEPT ![Len(acc)].evs = Append(@, e)], widths)
    ELSE IF e.ev = "readback" /\ acc # <<>> /\ acc[Len(acc)].tag # "r1" /\ e.tag # "r1" THEN CollectW(i + 1, b, [acc EXCEPT ![Len(acc)].rb = e], widths)
    ELSE IF e.ev = "readback" THEN CollectW(i + 1, b, Append(acc, [tag |-> e.tag, evs |-> <<>>, rb |-> e, widths |-> <<>>]), widths)
    ELSE IF e.ev = "note" THEN CollectW(i + 1, b, acc, e.widths)
    ELSE CollectW(i + 1, b, acc, widths)
RECURSIVE FirstBad(_, _)
FirstBad(s, i) == IF i > Len(s) THEN "" ELSE IF s[i] # "" THEN s[i] ELSE FirstBad(s, i + 1)

Rel(h, runs) ==
  LET n == Len(runs) IN
  CASE Mode = "C01" /\ h.rel = "rt" -> P01!RoundTrip(h.expect, runs[1].evs, runs[1].rb)
    [] Mode = "C02" /\ h.rel = "fix" -> IF n < 2 THEN "" ELSE P01!Fixpoint(c.sch, runs[1].rb, runs[2].evs, runs[2].rb)
    [] Mode = "C09" /\ h.rel = "present" -> P09!Present(runs)
    [] Mode = "C09" /\ h.rel = "options" -> FirstBad([i \in 1..n |-> IF i = 1 THEN "" ELSE P09!Options(runs[1], runs[i])], 1)
    [] Mode = "C09" /\ h.rel = "width_exact" -> IF n < 2 THEN "" ELSE P09!WidthExact(runs[1], runs[2])
    [] Mode = "C09" /\ h.rel = "full_unknown" -> IF n < 2 THEN "" ELSE P09!FullUnknown(runs[1], runs[2])
    [] Mode = "C19" /\ h.rel = "noop" -> P19!Rel(runs[1].evs, runs[2].evs, h.inserted, IF "optional" \in DOMAIN h THEN h.optional ELSE <<>>)
    [] OTHER -> ""

Init == l = 1 /\ c = [n |-> -1, sch |-> <<>>, start |-> 0, hdr |-> <<>>] /\ w = InitWriter /\ m = Trivial /\ skip = FALSE
StepCase(e) == c' = [n |-> e.n, sch |-> e.schema, start |-> l, hdr |-> e] /\ skip' = FALSE /\ w' = InitWriter /\ m' = Trivial
StepRun(e) == w' = InitWriter /\ m' = (IF Mode = "C10" THEN P10!M0 ELSE Trivial) /\ UNCHANGED <<c, skip>>
StepWriteL1(e) ==
  LET s == WriteCall(c.sch, w, OpOf(e)) IN
  IF e.res \in {"io", "panic"} THEN skip' = TRUE /\ UNCHANGED <<c, w, m>>          \* not modelled
  ELSE IF /\ e.res = s.res /\ e.dest_len = Len(s.w.dest) /\ e.dest_tail = Drop(s.w.dest, Len(w.dest))
          /\ ("st" \in DOMAIN e) => (e.st.wbuf = Len(s.w.wbuf) /\ OpenEq(e.st.open, s.w.open))
       THEN w' = s.w /\ UNCHANGED <<c, m, skip>>
  ELSE Reject(l, <<"L1 write", c.n, e.k, "expected", s.res, Len(s.w.dest), Len(s.w.wbuf)>>) /\ skip' = TRUE /\ UNCHANGED <<c, w, m>>
StepWriteMon(e) ==
  LET allowIds == IF "raws" \in DOMAIN c.hdr THEN c.hdr.raws ELSE FALSE
      m1 == IF Mode = "C10" THEN P10!Step(c.sch, allowIds, m, e) ELSE m IN
  IF m1.ok THEN m' = m1 /\ UNCHANGED <<c, w, skip>>
  ELSE Reject(l, <<c.n, e.k, m1.why>>) /\ skip' = TRUE /\ UNCHANGED <<c, w, m>>
StepEnd(e) ==
  LET why == IF Mode = "L1" \/ ~("rel" \in DOMAIN c.hdr) THEN "" ELSE Rel(c.hdr, CollectW(c.start + 1, l - 1, <<>>, <<>>)) IN
  IF why = "" THEN UNCHANGED <<c, w, m, skip>>
  ELSE Reject(l, <<c.n, "end", why>>) /\ skip' = TRUE /\ UNCHANGED <<c, w, m>>
Next ==
  /\ l <= NRec
  /\ l' = l + 1
  /\ LET e == Rec[l] IN
     IF e.ev = "case" THEN StepCase(e)
     ELSE IF skip THEN UNCHANGED <<c, w, m, skip>>
     ELSE IF e.ev = "wrun" THEN StepRun(e)
     ELSE IF e.ev = "end" THEN StepEnd(e)
     ELSE IF e.ev = "write" THEN (IF Mode = "L1" THEN StepWriteL1(e) ELSE StepWriteMon(e))
     ELSE UNCHANGED <<c, w, m, skip>>
Spec == Init /\ [][Next]_vars
=============================================================================
