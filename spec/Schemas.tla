------------------------------ MODULE Schemas ------------------------------
(* Concrete specifications used by the bounded models (the harness declares  *)
(* the same ones and logs their tables, queried through the trait functions). *)
EXTENDS Schema
PId(i)        == [k |-> "id", id |-> i, min |-> 0, max |-> 0]
PGlob(a, z)   == [k |-> "glob", id |-> <<>>, min |-> a, max |-> z]
E(i, ty, p)   == [id |-> i, ty |-> ty, path |-> p]

\* S3: three nested masters, leaves of several types at several depths, a second root, a global
A == <<129>>  B == <<130>>  Cc == <<131>>  U == <<132>>  I == <<133>>  F == <<134>>  S == <<135>>
X == <<136>>  P == <<137>>  Q == <<138>>  R2 == <<139>>  G == <<236>>
S3 == << E(A, "master", <<>>), E(B, "master", <<PId(A)>>), E(Cc, "master", <<PId(A), PId(B)>>),
         E(U, "uint", <<PId(A), PId(B), PId(Cc)>>), E(I, "int", <<PId(A), PId(B), PId(Cc)>>),
         E(F, "float", <<PId(A), PId(B), PId(Cc)>>), E(S, "utf8", <<PId(A), PId(B), PId(Cc)>>),
         E(X, "bin", <<PId(A), PId(B), PId(Cc)>>), E(P, "uint", <<PId(A)>>), E(Q, "uint", <<PId(A), PId(B)>>),
         E(R2, "master", <<>>), E(G, "bin", <<PGlob(0, -1)>>) >>
=============================================================================
