"""Generator of specification declarations for C18 (well-formed random ones and systematically broken ones)
and of the Rust source of the generated-code crate."""
import copy
import random

TYPES = ["Master", "UnsignedInt", "Integer", "Utf8", "Binary", "Float"]
LEAF = TYPES[1:]
RESERVED = {0xbf, 0xec}


def idw(v):
    b = v.to_bytes(8, "big").lstrip(b"\0")
    return list(b)


def name_part(n):
    return {"k": "name", "name": n, "min": -1, "max": -1}


def glob(a, z):
    return {"k": "glob", "name": "", "min": a, "max": z}


def rand_id(rng, used):
    while True:
        if rng.random() < 0.15:
            v = rng.choice([1, 5, 0x1234, 300, 70000, 2 ** 40 + 3, 2 ** 63 + 1])       # not vint-shaped: the macro does not care
        else:
            ln = rng.choice([1, 1, 1, 2, 2, 3, 4, 8])
            v = (1 << (7 * ln)) | rng.randrange(1, (1 << (7 * ln)) - 1)
        if v not in used and v not in RESERVED:
            used.add(v)
            return v


def variant(name, v, ty, path):
    return {"name": name, "id": ("0x%x" % v) if v % 3 else str(v), "idv": v, "ty": ty, "path": path, "has_id": True, "has_ty": True, "dup_id": False}


def well_formed(rng):
    used = set()
    vs = []
    masters = []          # (name, path)
    nm = rng.randint(1, 4)
    for k in range(nm):
        name = "M%d" % k
        if k == 0 or rng.random() < 0.3:
            path = []
        else:
            pn, pp = rng.choice(masters)
            path = pp + [name_part(pn)]
            if rng.random() < 0.3 and (not path or path[-1]["k"] == "name"):
                path = path + [rng.choice([glob(-1, -1), glob(1, -1), glob(1, 1), glob(0, 2), glob(-1, 3), glob(2, 3)])]
        if rng.random() < 0.15 and not path:
            path = [rng.choice([glob(-1, -1), glob(1, -1), glob(-1, 2)])]
        masters.append((name, path))
        vs.append(variant(name, rand_id(rng, used), "Master", path))
    for k in range(rng.randint(0, 5)):
        name = "L%d" % k
        r = rng.random()
        if r < 0.15:
            path = []
        elif r < 0.3:
            path = [rng.choice([glob(-1, -1), glob(1, -1), glob(0, 1), glob(2, 2)])]
        else:
            pn, pp = rng.choice(masters)
            path = pp + [name_part(pn)]
            if rng.random() < 0.25:
                path = path + [rng.choice([glob(-1, -1), glob(1, -1), glob(1, 1), glob(-1, 2)])]
        vs.append(variant(name, rand_id(rng, used), rng.choice(LEAF), path))
    rng.shuffle(vs)
    return vs


def broken(rng, vs):
    """one rule violated; returns (variants, rule) or None if not applicable"""
    vs = copy.deepcopy(vs)
    rule = rng.choice(["dup", "dup_reserved", "unknown_parent", "nonmaster_parent_leaf", "nonmaster_parent_master", "misaligned", "zero_max", "adjacent",
                       "missing_id", "missing_ty", "dup_attr", "bad_ty", "short_path"])
    withp = [v for v in vs if any(p["k"] == "name" for p in v["path"])]
    if rule == "dup":
        if len(vs) < 2:
            return None
        a, b = rng.sample(vs, 2)
        b["id"], b["idv"] = a["id"], a["idv"]
    elif rule == "dup_reserved":
        v = rng.choice(vs)
        r = rng.choice([0xbf, 0xec])
        v["id"], v["idv"] = "0x%x" % r, r
    elif rule == "unknown_parent":
        if not withp:
            return None
        v = rng.choice(withp)
        i = rng.choice([k for k, p in enumerate(v["path"]) if p["k"] == "name"])
        v["path"][i] = name_part("Zz")
    elif rule in ("nonmaster_parent_leaf", "nonmaster_parent_master"):
        want_master = rule.endswith("master")
        cands = [v for v in withp if (v["ty"] == "Master") == want_master]
        if not cands:
            return None
        v = rng.choice(cands)
        pn = [p["name"] for p in v["path"] if p["k"] == "name"][-1]
        par = [x for x in vs if x["name"] == pn][0]
        par["ty"] = rng.choice(LEAF)
    elif rule == "misaligned":
        cands = [v for v in withp if len([p for p in v["path"] if p["k"] == "name"]) >= 2]
        if not cands:
            return None
        v = rng.choice(cands)
        # replace the first part by another master that is not the right one
        others = [x["name"] for x in vs if x["ty"] == "Master" and x["name"] != v["path"][0].get("name")]
        if not others or v["path"][0]["k"] != "name":
            return None
        v["path"][0] = name_part(rng.choice(others))
    elif rule == "zero_max":
        v = rng.choice(vs)
        g = rng.choice([glob(-1, 0), glob(0, 0)])
        if v["path"] and v["path"][-1]["k"] == "glob":
            v["path"][-1] = g
        else:
            v["path"] = v["path"] + [g]
    elif rule == "adjacent":
        v = rng.choice(vs)
        if v["path"] and v["path"][-1]["k"] == "glob":
            v["path"] = v["path"] + [glob(1, -1)]
        else:
            v["path"] = v["path"] + [glob(-1, -1), glob(1, 2)]
    elif rule == "missing_id":
        rng.choice(vs)["has_id"] = False
    elif rule == "missing_ty":
        rng.choice(vs)["has_ty"] = False
    elif rule == "dup_attr":
        rng.choice(vs)["dup_id"] = True
    elif rule == "bad_ty":
        rng.choice(vs)["ty"] = rng.choice(["Date", "String", "Unsigned"])
    elif rule == "short_path":
        # child path shorter than / not extending the parent's declared path
        cands = [v for v in withp if len(v["path"]) >= 2 and v["path"][-1]["k"] == "name"]
        if not cands:
            return None
        v = rng.choice(cands)
        v["path"] = [v["path"][-1]]
        pn = v["path"][0]["name"]
        par = [x for x in vs if x["name"] == pn][0]
        if not par["path"]:
            return None
    return vs, rule


def declarations(seed, n_ok, n_bad):
    rng = random.Random(seed)
    out = []
    while len([d for d in out if d["kind"] == "ok"]) < n_ok:
        out.append({"n": len(out), "kind": "ok", "variants": well_formed(rng)})
    tries = 0
    while len([d for d in out if d["kind"] != "ok"]) < n_bad and tries < 50 * n_bad:
        tries += 1
        b = broken(rng, well_formed(rng))
        if b:
            out.append({"n": len(out), "kind": "broken:" + b[1], "variants": b[0]})
    for d in out:
        for v in d["variants"]:
            v["idw"] = idw(v["idv"])
    return out


def path_src(path):
    def part(p):
        if p["k"] == "name":
            return p["name"]
        return "(%s-%s)" % ("" if p["min"] < 0 else p["min"], "" if p["max"] < 0 else p["max"])
    return "/".join(part(p) for p in path)


def attr_src(d, name="D"):
    s = "pub enum %s {\n" % name
    for v in d["variants"]:
        s += "    #[id(%s)]\n    #[data_type(TagDataType::%s)]\n" % (v["id"], v["ty"])
        if v["path"]:
            s += "    #[doc_path(%s)]\n" % path_src(v["path"])
        s += "    %s,\n" % v["name"]
    return s + "}\n"


def easy_src(d, name="D"):
    s = "pub enum %s {\n" % name
    for v in d["variants"]:
        p = path_src(v["path"])
        s += "    %s%s: %s = %s,\n" % (p + "/" if p else "", v["name"], v["ty"], v["id"])
    return s + "}\n"


def gencrate_source(accepted):
    """accepted: list of declarations both front-ends accept"""
    mods, calls = [], []
    for d in accepted:
        n = d["n"]
        probes = [v["idv"] for v in d["variants"]] + [0xbf, 0xec, 0x7777, 0x99]
        ids = ", ".join("%du64" % x for x in probes)
        mods.append("pub mod a%d { use ebml_iterable::specs::{ebml_specification, TagDataType};\n#[ebml_specification]\n#[derive(Clone, PartialEq, Debug)]\n%s}\n" % (n, attr_src(d)))
        mods.append("pub mod e%d { use ebml_iterable::specs::{easy_ebml, TagDataType};\neasy_ebml! {\n#[derive(Clone, PartialEq, Debug)]\n%s}\n}\n" % (n, easy_src(d)))
        for front, m in (("attr", "a"), ("easy", "e")):
            calls.append('    writeln!(w, "{}", json!({"n": %d, "front": "%s", "rows": probe::<%s%d::D>(&[%s]), "panics": exercise::<%s%d::D>(&[%s])})).unwrap();' % (n, front, m, n, ids, m, n, ids))
    return "\n".join(mods) + "\npub fn run_all(w: &mut impl std::io::Write) {\n" + "\n".join(calls) + "\n}\n"
