#!/usr/bin/env python3
"""Pretty-print one writer case: showw.py TRACE CASE_NO"""
import json, sys
def hx(b): return ''.join('%02x' % x for x in b) if b else '-'
def kid(k): return '%s %s%s' % (k['kind'], hx(k['id']), ('=' + hx(k['val'][:12]) if k['val'] else '') + ('{' + ', '.join(kid(x) for x in k['kids']) + '}' if k['kids'] else ''))
path = sys.argv[1]; want = int(sys.argv[2]); on = False
for line in open(path):
    e = json.loads(line)
    if e['ev'] == 'case':
        on = e['n'] == want
        if on: print('== case', e['n'], {k: v for k, v in e.items() if k not in ('schema', 'ev', 'n', 'expect')})
    elif on:
        if e['ev'] == 'wrun': print(' -- wrun', e['tag'], 'sink', str(e['sink'])[:60])
        elif e['ev'] == 'write':
            print('    %-8s %-50s w=%s unk=%s -> %-14s dest_len=%d tail=%s  [open=%s wbuf=%s]' % (e['k'], kid(e)[:50] if e['kind'] else '', e['width'], e['unknown'], e['res'], e['dest_len'], hx(e['dest_tail'][:40]), ','.join(hx(o['id']) + ('k%d/%d' % (o['start'], o['width']) if o['known'] else '?') for o in e['st']['open']), e['st']['wbuf']))
        elif e['ev'] == 'readback': print('    readback', e['tag'], 'input', hx(e['input'][:80]), 'items', len(e['items']), 'last', e['last'].get('res'), e['last'].get('ekind'))
        else: print('   ', str(e)[:200])
