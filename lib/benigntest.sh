#!/bin/bash
# benigntest.sh <diff> <props...> : apply a behaviour-preserving refactoring to /repo, run the given checks, undo.
# Any VIOLATION here is a false alarm of the machinery (unless the refactoring is not behaviour-preserving after all).
D=$1; shift
cd /verif
git -C /repo apply "$D" || { echo "APPLY-FAIL $D"; exit 2; }
( cd /repo && cargo test --workspace --offline --features futures,derive-spec 2>&1 | grep -E "^test result" | grep -v "ok\." | head -2 )
for P in "$@"; do
  OUT=$(./check $P 2>&1); RC=$?
  echo "$(basename $(dirname $(dirname $D)))/$(basename $D) $P rc=$RC $(echo "$OUT" | grep -m2 'why:\|TOOL ERROR' | cut -c1-200 | tr '\n' ' ')"
  echo "$OUT" | python3 -c "
import sys,json,re
" 2>/dev/null
done
git -C /repo checkout -- .
