"""Shared machinery of ./check: building the harness, running TLC (model checking and trace
validation), known-findings classification, replay files, evidence.

Exit codes of ./check: 0 = property held on everything explored (KNOWN-FINDING lines allowed),
1 = violation (a line `VIOLATION property=<id> replay=<path>` was printed), 2 = tool error /
timeout / build failure (never reported as a violation)."""
import json
import os
import re
import shutil
import subprocess
import sys
import time

VERIF = os.path.dirname(os.path.dirname(os.path.abspath(__file__)))
WORK = os.path.join(VERIF, "work")
SPEC = os.path.join(VERIF, "spec")
HARNESS = os.path.join(VERIF, "harness")
HARNESS_BIN = os.path.join(HARNESS, "target", "debug", "verif-harness")
EVIDENCE = os.path.join(VERIF, "evidence")
KNOWN_FILE = os.path.join(VERIF, "known_findings.txt")
TLA_CP = "/opt/veriftools/tla/tla2tools.jar:/opt/veriftools/tla/CommunityModules-deps.jar"
REPO = "/repo"


class ToolError(Exception):
    pass


def log(*a):
    print(*a, file=sys.stderr, flush=True)


def ensure_dir(p):
    os.makedirs(p, exist_ok=True)
    return p


def offline_env(extra=None):
    env = dict(os.environ)
    env.update({"CARGO_NET_OFFLINE": "true", "GOPROXY": "off", "PIP_NO_INDEX": "1"})
    if extra:
        env.update(extra)
    return env


def build_harness():
    """(Re)build the harness against /repo's current working tree (path dependency, hooks on)."""
    t0 = time.time()
    lock = os.path.join(HARNESS, "Cargo.lock")
    if not os.path.exists(lock):
        shutil.copy(os.path.join(REPO, "Cargo.lock"), lock)
    p = subprocess.run(["cargo", "build", "--offline"], cwd=HARNESS, env=offline_env(),
                       stdout=subprocess.PIPE, stderr=subprocess.STDOUT, text=True)
    if p.returncode != 0:
        raise ToolError("harness build failed (does /repo still compile with feature verif-hooks?):\n" + p.stdout[-4000:])
    return time.time() - t0


def run_harness(args, timeout=1800, allow_rc=(0,)):
    p = subprocess.run([HARNESS_BIN] + [str(a) for a in args], cwd=VERIF, env=offline_env(),
                       stdout=subprocess.PIPE, stderr=subprocess.PIPE, text=True, timeout=timeout)
    if p.returncode not in allow_rc:
        raise ToolError("harness %s failed rc=%d: %s" % (args, p.returncode, p.stderr[-2000:]))
    return p


def _java_cmd(jvm, tlc_args):
    return ["java", "-XX:+UseParallelGC", "-DTLA-Library=" + SPEC + os.pathsep + os.path.join(SPEC, "props")] + jvm + \
           ["-cp", TLA_CP, "tlc2.TLC"] + tlc_args


_STAT = re.compile(r"(\d+) states generated, (\d+) distinct states found")


def tlc_mc(name, module, cfg_text, workers=12, timeout=1500, heap="8g", extra_env=None, coverage=True, sim=None):
    """Model-check spec/mc/<module>.tla under a generated cfg.  Returns a dict with states
    (distinct), transitions (generated), depth, coverage (action -> count), printed tuples."""
    meta = ensure_dir(os.path.join(WORK, "mc", name))
    cfg = os.path.join(meta, name + ".cfg")
    with open(cfg, "w") as f:
        f.write(cfg_text)
    mod = os.path.join(SPEC, "mc", module + ".tla")
    args = ["-workers", str(workers), "-checkpoint", "0", "-metadir", os.path.join(meta, "states"), "-cleanup", "-noGenerateSpecTE",
            "-config", cfg]
    if coverage:
        args += ["-coverage", "1"]
    if sim:
        args += ["-simulate", sim]
    args.append(mod)
    t0 = time.time()
    env = offline_env(extra_env)
    try:
        p = subprocess.run(_java_cmd(["-Xmx" + heap, "-Xss512m", "-XX:ParallelGCThreads=4"], args), cwd=meta, env=env,
                           stdout=subprocess.PIPE, stderr=subprocess.STDOUT, text=True, timeout=timeout)
    except subprocess.TimeoutExpired:
        raise ToolError("TLC model checking of %s timed out after %ds" % (name, timeout))
    finally:
        shutil.rmtree(os.path.join(meta, "states"), ignore_errors=True)
    out = p.stdout
    with open(os.path.join(meta, name + ".out"), "w") as f:
        f.write(out)
    m = None
    for m in _STAT.finditer(out):
        pass
    ok = "Model checking completed. No error has been found." in out or (sim and "Error:" not in out)
    if not ok or m is None:
        raise ToolError("TLC reported a problem on the *specification* %s (not a verdict about /repo); see %s\n%s" %
                        (name, os.path.join(meta, name + ".out"), "\n".join([l for l in out.splitlines() if "Error" in l or "violated" in l][:10])))
    dm = re.search(r"depth of the complete state graph search is (\d+)", out)
    cov = parse_coverage(out)
    return {"name": name, "states": int(m.group(2)), "transitions": int(m.group(1)), "depth": int(dm.group(1)) if dm else 0,
            "coverage": cov, "wall_s": round(time.time() - t0, 1), "prints": parse_prints(out),
            "cmd": "tlc -workers %d -config %s %s" % (workers, os.path.relpath(cfg, VERIF), os.path.relpath(mod, VERIF))}


def parse_coverage(out):
    """action name -> number of distinct states it produced ("<Name line ..>: distinct:total")."""
    cov = {}
    for m in re.finditer(r"^<(\w+) line \d+, col \d+ to line \d+, col \d+ of module (\w+)(?: \([\d ]+\))?>: (\d+):(\d+)", out, re.M):
        cov[m.group(1)] = cov.get(m.group(1), 0) + int(m.group(4))
    return cov


def parse_prints(out):
    """PrintT(ToJson(<<"TAG", ...>>)) lines (a JSON string holding a JSON array) -> list of (tag, [fields]);
    plain PrintT(<<"TAG", ...>>) tuples of scalars are accepted too."""
    res = []
    for line in out.splitlines():
        line = line.strip()
        if line.startswith('"[') and line.endswith(']"'):
            try:
                v = json.loads(json.loads(line))
                res.append((v[0], v[1:]))
            except Exception:
                pass
        elif line.startswith('<<"') and line.endswith(">>"):
            body = line[2:-2]
            parts = [x.strip() for x in split_top(body)]
            tag = parts[0].strip('"')
            res.append((tag, [unq(x) for x in parts[1:]]))
    return res


def split_top(s):
    parts, depth, cur, instr = [], 0, "", False
    i = 0
    while i < len(s):
        c = s[i]
        if instr:
            cur += c
            if c == "\\" and i + 1 < len(s):
                cur += s[i + 1]
                i += 1
            elif c == '"':
                instr = False
        elif c == '"':
            instr = True
            cur += c
        elif c in "<[{(":
            depth += 1
            cur += c
        elif c in ">]})":
            depth -= 1
            cur += c
        elif c == "," and depth == 0:
            parts.append(cur)
            cur = ""
        else:
            cur += c
        i += 1
    parts.append(cur)
    return parts


def unq(x):
    x = x.strip()
    if x.startswith('"') and x.endswith('"'):
        return x[1:-1].replace('\\"', '"').replace("\\\\", "\\")
    try:
        return int(x)
    except ValueError:
        return x


def tlc_trace(name, module, trace_file, cfg_text=None, devs="", timeout=1500, heap="3g", extra_env=None):
    """Validate an ndjson trace against spec/trace/<module>.tla.  Returns dict with rejects
    [(pos, fields...)], knowns, consumed (bool), states."""
    meta = ensure_dir(os.path.join(WORK, "tr", name))
    cfg = os.path.join(meta, name + ".cfg")
    with open(cfg, "w") as f:
        f.write(cfg_text or "SPECIFICATION Spec\nPOSTCONDITION AllConsumed\nCHECK_DEADLOCK FALSE\n")
    mod = os.path.join(SPEC, "trace", module + ".tla")
    args = ["-workers", "1", "-checkpoint", "0", "-metadir", os.path.join(meta, "states"), "-cleanup", "-noGenerateSpecTE", "-config", cfg, mod]
    env = offline_env({"TRACE": trace_file, "DEVS": devs})
    if extra_env:
        env.update(extra_env)
    t0 = time.time()
    try:
        p = subprocess.run(_java_cmd(["-Xmx" + heap, "-Xss1g", "-Dtlc2.tool.queue.IStateQueue=StateDeque"], args), cwd=meta, env=env,
                           stdout=subprocess.PIPE, stderr=subprocess.STDOUT, text=True, timeout=timeout)
    except subprocess.TimeoutExpired:
        raise ToolError("TLC trace validation %s timed out after %ds" % (name, timeout))
    finally:
        shutil.rmtree(os.path.join(meta, "states"), ignore_errors=True)
    out = p.stdout
    with open(os.path.join(meta, name + ".out"), "w") as f:
        f.write(out)
    prints = parse_prints(out)
    m = None
    for m in _STAT.finditer(out):
        pass
    completed = "Model checking completed. No error has been found." in out
    unconsumed = [f for t, f in prints if t == "UNCONSUMED"]
    if not completed and not unconsumed:
        errs = [l for l in out.splitlines() if "Error" in l or "rror:" in l or "Exception" in l][:8]
        raise ToolError("TLC could not evaluate the trace specification %s on %s (tool error, not a verdict); see %s\n%s" %
                        (module, trace_file, os.path.join(meta, name + ".out"), "\n".join(errs)))
    return {"name": name, "rejects": [f for t, f in prints if t == "REJECT"], "knowns": [f for t, f in prints if t == "KNOWN"],
            "stats": [f for t, f in prints if t == "STAT"],
            "consumed": not unconsumed, "unconsumed": unconsumed, "states": int(m.group(2)) if m else 0,
            "wall_s": round(time.time() - t0, 1),
            "cmd": "TRACE=%s tlc -workers 1 -config %s %s" % (os.path.relpath(trace_file, VERIF), os.path.relpath(cfg, VERIF), os.path.relpath(mod, VERIF))}


# ------------------------------------------------------------------ sharded trace validation
import threading
_TLC_SLOTS = threading.BoundedSemaphore(12)      # at most 12 single-worker TLC processes at a time (16 cores, 62 GB)


def shard_trace(trace_file, tag, max_events=50000, max_shards=24):
    """Split an ndjson trace at case boundaries into files of about max_events lines.
    Cases are independent of each other (every case event carries its schema and configuration).
    Returns [(path, line_offset)]; the file itself when it is small."""
    with open(trace_file) as f:
        lines = f.readlines()
    if len(lines) <= max_events * 3 // 2:
        return [(trace_file, 0)]
    per = max(max_events, -(-len(lines) // max_shards))
    starts = [i for i, l in enumerate(lines) if '"ev":"case"' in l]
    if not starts or starts[0] != 0:
        return [(trace_file, 0)]
    cuts, nxt = [0], per
    for st in starts[1:]:
        if st >= nxt:
            cuts.append(st)
            nxt = st + per
    cuts.append(len(lines))
    out = []
    for k in range(len(cuts) - 1):
        path = "%s.%s.shard%02d" % (trace_file, tag, k)      # one set of files per validation run (several run concurrently on one trace)
        with open(path, "w") as g:
            g.writelines(lines[cuts[k]:cuts[k + 1]])
        out.append((path, cuts[k]))
    return out


def tlc_trace_sharded(name, module, trace_file, cfg_text=None, devs="", timeout=1500, heap="3g", extra_env=None):
    """tlc_trace over the shards of a big trace, in parallel; positions are mapped back to lines of trace_file."""
    import concurrent.futures
    shards = shard_trace(trace_file, name)

    def one(k, path):
        with _TLC_SLOTS:
            return tlc_trace(name if len(shards) == 1 else "%s.%02d" % (name, k), module, path, cfg_text, devs, timeout, heap, extra_env)
    t0 = time.time()
    try:
        with concurrent.futures.ThreadPoolExecutor(max_workers=12) as ex:
            rs = list(ex.map(lambda a: one(a[0], a[1][0]), enumerate(shards)))
    finally:
        for path, _ in shards:
            if path != trace_file and os.path.exists(path):
                os.remove(path)
    if len(shards) == 1:
        return rs[0]
    res = {"name": name, "rejects": [], "knowns": [], "stats": [], "consumed": all(r["consumed"] for r in rs), "unconsumed": [],
           "states": sum(r["states"] for r in rs), "wall_s": round(time.time() - t0, 1),
           "cmd": rs[0]["cmd"] + "   (x %d shards of %s, in parallel)" % (len(shards), os.path.relpath(trace_file, VERIF))}
    for r, (path, off) in zip(rs, shards):
        for key in ("rejects", "knowns"):
            for f in r[key]:
                res[key].append([int(f[0]) + off] + list(f[1:]))
        res["stats"] += r["stats"]
        res["unconsumed"] += r["unconsumed"]
    return res


# ------------------------------------------------------------------ known findings
def load_known(prop):
    """Lines of known_findings.txt: `known: property=<id> deviation=<NAME> <text>` (suppresses
    exactly the cases explained by that deviation action) and `fixed: property=<id> <commit>
    <text>` (suppresses nothing).  Read-only at run time."""
    known, fixed = {}, []
    if os.path.exists(KNOWN_FILE):
        for line in open(KNOWN_FILE):
            line = line.strip()
            if not line or line.startswith("#"):
                continue
            m = re.match(r"known:\s+property=(\w+)\s+deviation=(\w+)\s+(.*)", line)
            if m and m.group(1) == prop:
                known[m.group(2)] = m.group(3)
            m = re.match(r"fixed:\s+property=(\w+)\s+(\w+)\s+(.*)", line)
            if m and m.group(1) == prop:
                fixed.append((m.group(2), m.group(3)))
    return known, fixed


# ------------------------------------------------------------------ traces and replay files
def read_lines(path):
    with open(path) as f:
        return f.read().splitlines()


def case_bounds(lines, pos):
    """1-based line pos -> (start, end) 1-based inclusive of the case containing it."""
    i = pos
    while i > 1 and '"ev":"case"' not in lines[i - 1]:
        i -= 1
    j = pos + 1
    while j <= len(lines) and '"ev":"case"' not in lines[j - 1]:
        j += 1
    return i, j - 1


def write_replay(prop, k, lines):
    d = ensure_dir(os.path.join(WORK, "replay"))
    path = os.path.join(d, "%s-%d.ndjson" % (prop, k))
    with open(path, "w") as f:
        f.write("\n".join(lines) + "\n")
    return path


def git_head(path):
    try:
        return subprocess.run(["git", "-C", path, "rev-parse", "--short", "HEAD"], stdout=subprocess.PIPE, text=True).stdout.strip()
    except Exception:
        return "?"


# ------------------------------------------------------------------ evidence
def write_evidence(prop, tier, seed, level, coverage, assumptions, wall_s, violations, extra=None):
    ensure_dir(EVIDENCE)
    ev = {"property_id": prop, "tier": tier, "seed": seed, "level": level, "coverage": coverage,
          "assumptions": assumptions, "wall_s": round(wall_s, 1), "violations": violations}
    if extra:
        ev.update(extra)
    with open(os.path.join(EVIDENCE, prop + ".json"), "w") as f:
        json.dump(ev, f, indent=1)
    return ev
