#!/usr/bin/env python3
"""Pretty-print one case of an ndjson trace: showcase.py TRACE CASE_NO  (or a replay file)."""
import json, sys
def hx(b): return ''.join('%02x' % x for x in b) if b else '-'
def part(p): return hx(p['id']) if p['k'] == 'id' else '(%s-%s)' % (p['min'] or '', '' if p['max'] < 0 else p['max'])
def item(e):
    if e['res'] == 'item':
        s = '%-5s %s @%s %s' % (e['kind'], hx(e['id']), e['off'], e['ty'])
        if e['val']: s += ' val=' + hx(e['val'][:24])
        if e['kids']: s += ' kids=' + json.dumps([ (k['kind'], hx(k['id'])) for k in e['kids']])
        return s
    if e['res'] == 'err':
        return 'ERR %s pos=%s id=%s size=%s partial=%s parent=%s %s' % (e['ekind'], e['pos'], hx(e['id']) if e['has_id'] else None, hx(e['size']) if e['has_size'] else None, hx(e['partial']) if e['has_partial'] else None, hx(e['parent']) if e['has_parent'] else None, e.get('io',''))
    return e['res'] + ' ' + e.get('msg', '')
def main():
    path = sys.argv[1]; want = int(sys.argv[2]) if len(sys.argv) > 2 else None
    on = want is None
    for line in open(path):
        e = json.loads(line)
        if e['ev'] == 'case':
            on = want is None or e['n'] == want
            if on:
                print('== case', e['n'], {k: v for k, v in e.items() if k not in ('schema', 'ev', 'n')})
                for s in e.get('schema', []): print('   %-16s %-6s %s' % (hx(s['id']), s['ty'], '/'.join(part(p) for p in s['path'])))
        elif on:
            if e['ev'] == 'run':
                c = e['cfg']
                print(' -- run', e['tag'], 'allow=' + ''.join(x for x, f in (('I', c['allowId']), ('H', c['allowHier']), ('S', c['allowSize'])) if f), 'max=' + (hx(c['max']) if c['hasMax'] else 'none'), 'buf=' + ','.join(hx(x) for x in c['buffered']), 'eofClose=%s cap=%s' % (c['eofClose'], c['cap']), 'sched=', ['P' if x == -1 else ('E' if x == -2 else x) for x in e['sched']])
                print('    input[%d]: %s' % (len(e['input']), hx(e['input'])))
            elif e['ev'] in ('next', 'recover'):
                st = e.get('st')
                print('    %-7s %s%s' % (e['ev'], item(e) if e['ev'] == 'next' or e['res'] not in ('ok',) else 'ok', '   [pos=%s stack=%s]' % (st['pos'], ','.join(hx(x['id']) + ('?' if x['unk'] else ':%d' % x['size']) for x in st['stack'])) if st else ''))
            elif e['ev'] == 'read': print('      read', e['n'], e.get('io', ''))
            else: print('   ', {k: v for k, v in e.items()})
main()
