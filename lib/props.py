"""Per-property check recipes (what is model-checked, which drivers run, which trace
specification gives the verdict).  See DESIGN.md section 6."""
import glob
import json
import os
import subprocess

import common as C

PROPS = {}


def prop(name):
    def deco(f):
        PROPS[name] = f
        return f
    return deco


def setup():
    """Build the harness offline and parse every TLA+ module with SANY."""
    bt = C.build_harness()
    C.log("harness built in %.1fs" % bt)
    bad = 0
    mods = sorted(glob.glob(os.path.join(C.SPEC, "*.tla")) + glob.glob(os.path.join(C.SPEC, "*", "*.tla")))
    for m in mods:
        if os.path.basename(os.path.dirname(m)) == "apa":
            continue
        p = subprocess.run(["java", "-DTLA-Library=" + C.SPEC + os.pathsep + os.path.join(C.SPEC, "props"), "-cp", C.TLA_CP, "tla2sany.SANY", m],
                           cwd=os.path.dirname(m), stdout=subprocess.PIPE, stderr=subprocess.STDOUT, text=True)
        if p.returncode != 0 or "Semantic errors" in p.stdout or "Parse Error" in p.stdout or "Fatal" in p.stdout:
            C.log("SANY failed on " + m + "\n" + p.stdout[-1500:])
            bad += 1
    C.log("SANY: %d modules parsed, %d failed" % (len(mods), bad))
    return 2 if bad else 0


def cfg(spec="Spec", constants=None, invariants=(), properties=(), view=None, constraint=None, post=None, extra=""):
    s = "SPECIFICATION %s\nCHECK_DEADLOCK FALSE\n" % spec
    for k, v in (constants or {}).items():
        s += "CONSTANT %s = %s\n" % (k, v)
    if invariants:
        s += "INVARIANTS " + " ".join(invariants) + "\n"
    if properties:
        s += "PROPERTIES " + " ".join(properties) + "\n"
    if view:
        s += "VIEW %s\n" % view
    if constraint:
        s += "CONSTRAINT %s\n" % constraint
    if post:
        s += "POSTCONDITION %s\n" % post
    return s + extra


def filter_trace(src, dst, keep):
    n = 0
    with open(src) as f, open(dst, "w") as g:
        for line in f:
            e = json.loads(line)
            if keep(e):
                g.write(line)
                n += 1
    return n


# --------------------------------------------------------------------------- C15 / C16
C15_FNS = {"as_vint", "as_vint_w", "read_vint", "is_vint", "as_svint", "as_svint_w", "read_svint"}
C16_FNS = {"arr_to_u64", "arr_to_i64", "arr_to_f64", "write_uint", "write_int", "write_float"}


def codec_check(ctx, fns, invariants, rule):
    maxlen = 1 if ctx.quick else 2
    r = C.tlc_mc(ctx.prop + "_MC_Codec", "MC_Codec", cfg(constants={"MaxLen": maxlen}, invariants=invariants), workers=12)
    ctx.add_mc(r)
    ctx.need_coverage(r, ["Next"])
    raw = ctx.path("codec_all.ndjson")
    C.run_harness(["codec", "--out", raw, "--seed", ctx.seed, "--tier", ctx.tier])
    tf = ctx.path("codec.ndjson")
    filter_trace(raw, tf, lambda e: e["ev"] != "codec" or e["fn"] in fns)
    os.remove(raw)
    for line in C.read_lines(tf):
        e = json.loads(line)
        if e["ev"] == "codec":
            ctx.count("%s|%s|%s" % (e["fn"], e["in"], e["w"]), nontrivial=True)
            if len(ctx.samples) < 6 and (ctx.evaluations % 997 == 3):
                ctx.samples.append(e)
    # split large traces over several TLC runs (single-threaded each)
    ctx.validate(ctx.prop + "_CodecTrace", "CodecTrace", tf, per_case=False)
    ctx.rule = rule
    ctx.assumptions += [
        "the TLA+ modules Vint/Payload are an independently written reference (from RFC 8794 / IEEE-754), themselves model-checked by MC_Codec over every word of <= %d bytes, the boundary lattice and every width" % maxlen,
        "TLC evaluates the reference correctly; the harness records inputs/outputs of the real functions without transformation other than numbers -> big-endian byte arrays",
    ]


@prop("C15")
def c15(ctx):
    codec_check(ctx, C15_FNS, ["Inv_W", "Inv_C15"],
                "one evaluation = one call of a real codec function (as_vint, as_vint_with_length<1..8>, read_vint, is_vint, signed variants) recorded with input and output and compared by TLC with the Vint reference; distinct = distinct (function, input, width) triples; all are non-trivial (each exercises encode or decode of a concrete value/slice)")


@prop("C16")
def c16(ctx):
    codec_check(ctx, C16_FNS, ["Inv_C16"],
                "one evaluation = one call of arr_to_u64/arr_to_i64/arr_to_f64 on a slice, or one element written by the real TagWriter (payload bytes compared with the Payload reference encoders, value read back with the real iterator); distinct = distinct (function, input) pairs")
