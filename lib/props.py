"""Per-property check recipes (what is model-checked, which drivers run, which trace
specification gives the verdict).  See DESIGN.md section 6."""
import glob
import json
import os
import subprocess

import common as C

PROPS = {}


def prop(name):
    def deco(f):
        PROPS[name] = f
        return f
    return deco


def setup():
    """Build the harness offline and parse every TLA+ module with SANY."""
    bt = C.build_harness()
    C.log("harness built in %.1fs" % bt)
    bad = 0
    mods = sorted(glob.glob(os.path.join(C.SPEC, "*.tla")) + glob.glob(os.path.join(C.SPEC, "*", "*.tla")))
    for m in mods:
        if os.path.basename(os.path.dirname(m)) == "apa":
            continue
        p = subprocess.run(["java", "-DTLA-Library=" + C.SPEC + os.pathsep + os.path.join(C.SPEC, "props"), "-cp", C.TLA_CP, "tla2sany.SANY", m],
                           cwd=os.path.dirname(m), stdout=subprocess.PIPE, stderr=subprocess.STDOUT, text=True)
        if p.returncode != 0 or "Semantic errors" in p.stdout or "Parse Error" in p.stdout or "Fatal" in p.stdout:
            C.log("SANY failed on " + m + "\n" + p.stdout[-1500:])
            bad += 1
    C.log("SANY: %d modules parsed, %d failed" % (len(mods), bad))
    return 2 if bad else 0


def cfg(spec="Spec", constants=None, invariants=(), properties=(), view=None, constraint=None, post=None, extra=""):
    s = "SPECIFICATION %s\nCHECK_DEADLOCK FALSE\n" % spec
    for k, v in (constants or {}).items():
        s += "CONSTANT %s = %s\n" % (k, v)
    if invariants:
        s += "INVARIANTS " + " ".join(invariants) + "\n"
    if properties:
        s += "PROPERTIES " + " ".join(properties) + "\n"
    if view:
        s += "VIEW %s\n" % view
    if constraint:
        s += "CONSTRAINT %s\n" % constraint
    if post:
        s += "POSTCONDITION %s\n" % post
    return s + extra


def filter_trace(src, dst, keep):
    n = 0
    with open(src) as f, open(dst, "w") as g:
        for line in f:
            e = json.loads(line)
            if keep(e):
                g.write(line)
                n += 1
    return n


# --------------------------------------------------------------------------- C15 / C16
C15_FNS = {"as_vint", "as_vint_w", "read_vint", "is_vint", "as_svint", "as_svint_w", "read_svint"}
C16_FNS = {"arr_to_u64", "arr_to_i64", "arr_to_f64", "write_uint", "write_int", "write_float"}


def codec_check(ctx, fns, invariants, rule):
    maxlen = 1 if ctx.quick else 2
    r = C.tlc_mc(ctx.prop + "_MC_Codec", "MC_Codec", cfg(constants={"MaxLen": maxlen}, invariants=invariants), workers=12)
    ctx.add_mc(r)
    ctx.need_coverage(r, ["Next"])
    raw = ctx.path("codec_all.ndjson")
    C.run_harness(["codec", "--out", raw, "--seed", ctx.seed, "--tier", ctx.tier])
    tf = ctx.path("codec.ndjson")
    filter_trace(raw, tf, lambda e: e["ev"] != "codec" or e["fn"] in fns)
    os.remove(raw)
    for line in C.read_lines(tf):
        e = json.loads(line)
        if e["ev"] == "codec":
            ctx.count("%s|%s|%s" % (e["fn"], e["in"], e["w"]), nontrivial=True)
            if len(ctx.samples) < 6 and (ctx.evaluations % 997 == 3):
                ctx.samples.append(e)
    # split large traces over several TLC runs (single-threaded each)
    tr = ctx.validate(ctx.prop + "_CodecTrace", "CodecTrace", tf, per_case=False)
    # every recorded call is a case of its own
    tr["cases"] = sum(1 for l in C.read_lines(tf) if '"ev":"codec"' in l)
    ctx.rule = rule
    ctx.assumptions += [
        "the TLA+ modules Vint/Payload are an independently written reference (from RFC 8794 / IEEE-754), themselves model-checked by MC_Codec over every word of <= %d bytes, the boundary lattice and every width" % maxlen,
        "TLC evaluates the reference correctly; the harness records inputs/outputs of the real functions without transformation other than numbers -> big-endian byte arrays",
    ]


def apalache_vintarith(ctx):
    """Unbounded part: the integer-level lemmas of the vint codec for *all* values, discharged symbolically by Apalache."""
    import time
    t0 = time.time()
    outdir = C.ensure_dir(os.path.join(C.WORK, "apalache"))
    try:
        p = subprocess.run(["apalache-mc", "check", "--init=Init", "--next=Next", "--inv=Lemma", "--length=0", "--out-dir=" + outdir, "VintArith.tla"],
                           cwd=os.path.join(C.SPEC, "apa"), env=C.offline_env(), stdout=subprocess.PIPE, stderr=subprocess.STDOUT, text=True, timeout=900)
    except subprocess.TimeoutExpired:
        raise C.ToolError("apalache timed out on VintArith")
    if "EXITCODE: OK" not in p.stdout or "NoError" not in p.stdout:
        raise C.ToolError("Apalache did not discharge the vint arithmetic lemma (a problem of the specification):\n" + p.stdout[-1500:])
    ctx.extra["apalache"] = {"module": "spec/apa/VintArith.tla", "invariant": "Lemma = MarkerLemma /\\ Canonical /\\ NoShorter /\\ SignedLemma /\\ NoOverflow",
                             "domain": "w in 1..8, all integers 0 <= v < 2^(7w), all -2^(7w-1) <= sv < 2^(7w-1) (symbolic)", "outcome": "NoError", "wall_s": round(time.time() - t0, 1),
                             "cmd": "apalache-mc check --init=Init --next=Next --inv=Lemma --length=0 VintArith.tla"}
    C.log("  APALACHE VintArith Lemma: NoError  %.1fs" % (time.time() - t0))


@prop("C15")
def c15(ctx):
    apalache_vintarith(ctx)
    codec_check(ctx, C15_FNS, ["Inv_W", "Inv_C15"],
                "one evaluation = one call of a real codec function (as_vint, as_vint_with_length<1..8>, read_vint, is_vint, signed variants) recorded with input and output and compared by TLC with the Vint reference; distinct = distinct (function, input, width) triples; all are non-trivial (each exercises encode or decode of a concrete value/slice)")


@prop("C16")
def c16(ctx):
    codec_check(ctx, C16_FNS, ["Inv_C16"],
                "one evaluation = one call of arr_to_u64/arr_to_i64/arr_to_f64 on a slice, or one element written by the real TagWriter (payload bytes compared with the Payload reference encoders, value read back with the real iterator); distinct = distinct (function, input) pairs")


# --------------------------------------------------------------------------- reader properties
import concurrent.futures
import hashlib
import re

SIGMA12 = "{128, 129, 130, 131, 132, 137, 139, 236, 255, 64, 0, 144}"


def mc_reader(ctx, mode, maxlen, allow, buf, eof, maxes, name=None, invariants=None, workers=12):
    consts = {"MaxLen": maxlen, "Sigma": SIGMA12, "AllowSets": allow, "EofCloses": eof}
    extra = "CONSTANT BufSets <- %s\nCONSTANT Maxes <- %s\n" % (buf, maxes)
    inv = invariants or ["TypeOK", "Inv_" + mode]
    # (-coverage makes TLC run out of memory on this module at start-up; outcome coverage is measured on the Gen run instead)
    r = C.tlc_mc(name or (ctx.prop + "_MC_Reader"), "MC_Reader", cfg(constants=consts, invariants=inv, extra=extra), workers=workers, timeout=3000, heap="12g", coverage=False)
    ctx.add_mc(r)
    if r["depth"] < maxlen + 4:
        raise C.ToolError("vacuity: MC_Reader explored no complete parse (depth %d)" % r["depth"])
    return r


def mc_reader_gen(ctx, maxlen, allow, eof):
    """Specification -> implementation: TLC prints every terminal behaviour of the bounded model
    (input, configuration); the harness replays them into the real iterator and the recorded
    trace is validated with every field bound (Level 1) and against the property."""
    consts = {"MaxLen": maxlen, "Sigma": SIGMA12, "AllowSets": allow, "EofCloses": eof}
    extra = "CONSTANT BufSets <- Buf_noneB\nCONSTANT Maxes <- Maxes_2\n"
    r = C.tlc_mc(ctx.prop + "_MC_Reader_Gen", "MC_Reader", cfg(constants=consts, invariants=["Emit"], extra=extra), workers=4, coverage=False)
    out = open(os.path.join(C.WORK, "mc", ctx.prop + "_MC_Reader_Gen", ctx.prop + "_MC_Reader_Gen.out")).read()
    path = ctx.path("replay_in.ndjson")
    n = 0
    with open(path, "w") as f:
        kinds = {}
        for m in re.finditer(r'"<<\\"REPLAY\\", <<([\d, ]*)>>, (TRUE|FALSE), (TRUE|FALSE), (TRUE|FALSE), (TRUE|FALSE), \{([^}]*)\}, <<(.*?)>>>>"', out):
            for k in re.findall(r'\\"(\w+)\\"', m.group(7)):
                kinds[k] = kinds.get(k, 0) + 1
            inp = [int(x) for x in m.group(1).split(",") if x.strip()]
            buf = [[int(y) for y in x.strip("<> ").split(",") if y.strip()] for x in re.findall(r"<<[\d, ]*>>", m.group(6))]
            f.write(json.dumps({"input": inp, "allowId": m.group(2) == "TRUE", "allowHier": m.group(3) == "TRUE", "allowSize": m.group(4) == "TRUE",
                                "eofClose": m.group(5) == "TRUE", "buffered": buf, "max": 2}) + "\n")
            n += 1
    if n == 0:
        raise C.ToolError("MC_Reader_Gen printed no REPLAY behaviours")
    ctx.extra["replayed_model_behaviours"] = n
    ctx.extra["model_outcome_coverage"] = kinds
    missing = [k for k in ("start", "end", "elem", "eof", "bad_id", "bad_data", "too_big", "none") if k not in kinds]
    if missing:
        raise C.ToolError("vacuity: outcomes never produced by the bounded model: %s" % missing)
    tf = ctx.path("replay.ndjson")
    C.run_harness(["reader:replay", "--in", path, "--out", tf])
    return tf


def count_runs(ctx, tf, want_samples=2):
    """evaluations = runs of the real iterator; distinct = distinct (input, cfg, schedule) with >= 1 item or error"""
    cur = None
    nres = 0
    ns = 0
    with open(tf) as f:
        for line in f:
            if '"ev":"run"' in line:
                if cur is not None:
                    ctx.count(cur, nontrivial=nres > 1)
                e = json.loads(line)
                cur = json.dumps([e["input"], e["cfg"], e["sched"]])
                nres = 0
                if ns < want_samples and len(e["input"]) > 3 and len(ctx.samples) < 6:
                    ctx.samples.append({"run": e["tag"], "input": e["input"][:64], "cfg": e["cfg"], "sched": e["sched"][:16]})
                    ns += 1
            elif '"ev":"next"' in line or '"ev":"recover"' in line:
                nres += 1
                m = re.search(r'"(?:kind|ekind)":"(\w+)"', line)
                k = m.group(1) if m else ("none" if '"res":"none"' in line else "other")
                oc = ctx.extra.setdefault("trace_outcome_coverage", {})
                oc[k] = oc.get(k, 0) + 1
    if cur is not None:
        ctx.count(cur, nontrivial=nres > 1)


def reader_check(ctx, mode, mc_args, drivers, gen_args=None, l1=True, thorough_mc_args=None, need=(), lb=False):
    args = mc_args if ctx.quick or not thorough_mc_args else thorough_mc_args
    if args:
        mc_reader(ctx, mode, *args)
    traces = []
    if gen_args:
        traces.append(("replay", mc_reader_gen(ctx, *gen_args)))
    for d in drivers:
        tf = ctx.path(d.replace(":", "_") + ".ndjson")
        p = C.run_harness([d, "--out", tf, "--seed", ctx.seed, "--tier", ctx.tier], timeout=3000, allow_rc=(0, 3, -6, 134, -11, 139, -9, 137, 101))
        if p.returncode == 101:
            raise C.ToolError("harness panicked (its own bug): " + p.stderr[-1500:])
        if p.returncode != 0:
            # the code under test killed the process (abort on allocation failure, stack overflow, ...): that is a result,
            # and the case being executed - the last one on disk - is the witness
            lines = C.read_lines(tf)
            a = max([i for i, l in enumerate(lines) if '"ev":"case"' in l] or [0])
            last = p.stderr.strip().splitlines()[-1][:200] if p.stderr.strip() else ""
            why = ("a call of the real code did not return within 20 s (hang) in this case" if p.returncode == 3
                   else "the process running the real code was killed (rc=%d) while executing this case" % p.returncode)
            if p.returncode in (-9, 137):
                raise C.ToolError("%s (driver %s): killed from outside (out of memory?)" % (why, d))
            # no driver asks the real code for an allocation it may legitimately make above 8 MiB, none can loop: an abort
            # (allocation failure, stack overflow) or a hang on one of this property's cases is reported with that case as witness
            ctx.violation(lines[a:], why + ": " + last)
            with open(tf, "w") as f:
                f.write("\n".join(lines[:a]) + ("\n" if a else ""))
                f.write('{"ev":"end"}\n' if a else '{"ev":"case","n":0,"comp":"reader","schema":[]}\n{"ev":"end"}\n')
        traces.append((d, tf))
    for d, tf in traces:
        count_runs(ctx, tf)
    missing = [k for k in need if ctx.extra.get("trace_outcome_coverage", {}).get(k, 0) == 0]
    ctx.vacuity = ("vacuity: outcomes never observed in the recorded traces: %s" % missing) if missing else None
    # verdicts (property specification) and, alongside, full conformance with Level 1 (statistic only)
    jobs = []
    with concurrent.futures.ThreadPoolExecutor(max_workers=5) as ex:
        for d, tf in traces:
            nm = "%s_%s" % (ctx.prop, d.replace(":", "_"))
            env = {"MODE": mode}
            env.update({dv: "1" for dv in ctx.known})
            jobs.append(("verdict", d, tf, ex.submit(C.tlc_trace_sharded, nm, "ReaderTrace", tf, None, ctx.devs, 3000, "4g", env)))
            if l1:
                jobs.append(("l1", d, tf, ex.submit(C.tlc_trace_sharded, nm + "_L1", "ReaderTrace", tf, None, "", 3000, "4g", {"MODE": "L1"})))
            if lb:   # conformance with the windowed reader ReaderBuf under the recorded schedule (buffer offset, position, length, capacity)
                jobs.append(("lb", d, tf, ex.submit(C.tlc_trace_sharded, nm + "_LB", "ReaderTrace", tf, None, "", 3000, "4g", {"MODE": "LB"})))
    div = 0
    for kind, d, tf, fut in jobs:
        tr = fut.result()
        if kind == "verdict":
            ctx.absorb(tr, tf)
        else:
            if not tr["consumed"]:
                raise C.ToolError("L1 validation did not consume " + tf)
            div += len(tr["rejects"])
            ctx.extra.setdefault("level1_conformance" if kind == "l1" else "readerbuf_conformance", []).append(
                {"trace": d, "events": tr["states"] - 1, "model_divergence": len(tr["rejects"]), "first": tr["rejects"][:2]})
    ctx.extra["model_divergence_total"] = div
    ctx.assumptions += [
        "verdicts come from the property specification spec/props/P_%s.tla evaluated by TLC on recorded events (mode %s of trace/ReaderTrace.tla); Level 1 (ReaderCore) conformance is reported as a statistic (model_divergence), never as a violation" % (mode, mode),
        "bounded model: every input over a 12-symbol alphabet up to the stated length on schema S3; beyond that the drivers sample (seeded by VERIF_SEED)",
        "the harness records results of the public API (plus verif-hooks state snapshots) without post-processing",
    ]


@prop("C03")
def c03(ctx):
    reader_check(ctx, "C03", (4, "{0, 7}", "Buf_noneB", "{TRUE}", "Maxes_2"),
                 ["reader:docs", "reader:mutate", "reader:buf", "reader:total"], gen_args=(3, "{0, 7}", "{TRUE}"),
                 thorough_mc_args=(5, "{0, 7}", "Buf_noneB", "{TRUE}", "Maxes_2"))
    ctx.rule = "one evaluation = one run of the real TagIterator (input, configuration, schedule) whose every item is re-derived by the specification from the bytes at its offset (id, decoded value, tiling cursor, End/Full offsets); distinct = distinct (input, cfg, schedule); non-trivial = the run produced at least one item or error"


@prop("C05")
def c05(ctx):
    mc_calls(ctx, "MC_Calls", False, 3 if ctx.quick else 4, 5, ["TypeOK", "Inv_C05"])
    # the source fails once, anywhere in any read schedule of the documents of MC_ReaderBuf: the read error surfaces in that call
    rb = C.tlc_mc("C05_MC_ReaderBuf_err", "MC_ReaderBuf", cfg(constants={"Caps": "{16, 17}", "MaxDoc": 8 if ctx.quick else 10, "WithPauses": "FALSE", "WithErrors": "TRUE"},
                  invariants=["ErrSurfaces", "WinInv", "Bounded"]), workers=8, timeout=3000, heap="12g", coverage=False)
    ctx.add_mc(rb)
    reader_check(ctx, "C05", (4, "{0, 7}", "Buf_noneB", "{TRUE, FALSE}", "Maxes_2"),
                 ["reader:total", "reader:mutate", "reader:sched_smallcap", "reader:chain"], gen_args=(3, "{0, 5, 7}", "{TRUE, FALSE}"),
                 thorough_mc_args=(5, "{0, 7}", "Buf_noneB", "{TRUE, FALSE}", "Maxes_2"), lb=True)
    ctx.rule = "one evaluation = one run (call history of next()/try_recover() over one input/configuration/read schedule incl. injected source errors) under catch_unwind; the monitor reads result classes, counts, the io string; distinct as for C03"


@prop("C06")
def c06(ctx):
    reader_check(ctx, "C06", (4, "{0}", "Buf_none", "{TRUE, FALSE}", "Maxes_both"),
                 ["reader:docs", "reader:mutate", "reader:suffixes", "reader:enc_nested", "reader:sizes", "reader:prefixed"], gen_args=(3, "{0}", "{TRUE, FALSE}"),
                 thorough_mc_args=(5, "{0}", "Buf_none", "{TRUE, FALSE}", "Maxes_2"))
    ctx.rule = "one evaluation = one strict run judged by the shadow-stack monitor P_C06 (well-nested, chain valid per declared path, contained in known-size masters, End exactly at exhaustion, Ends at end of input); distinct as for C03"


@prop("C07")
def c07(ctx):
    reader_check(ctx, "C07", (4, "{0, 2}", "Buf_none", "{TRUE}", "Maxes_2"),
                 ["reader:enc_nested", "reader:enc", "reader:mutate", "reader:sizes", "reader:prefixed"], gen_args=(3, "{0, 2}", "{TRUE}"),
                 thorough_mc_args=(5, "{0, 2}", "Buf_none", "{TRUE}", "Maxes_2"))
    ctx.rule = "one evaluation = one run; cases of the enc drivers hold one all-known-size run plus one run per (sampled) subset of masters encoded with unknown size, compared at the end of the case; the monitor checks every End against ClosedBy / exhaustion / EOF; non-trivial = run with >= 1 result"


@prop("C08")
def c08(ctx):
    reader_check(ctx, "C08", (4, "{0, 7}", "Buf_some", "{TRUE}", "Maxes_2"),
                 ["reader:buf"], gen_args=None,
                 thorough_mc_args=(5, "{0}", "Buf_some", "{TRUE}", "Maxes_2"))
    ctx.rule = "one evaluation = one run; each case holds the unbuffered run and one run per (sampled) subset of the document's master ids as buffered set over valid / mutated / truncated inputs; relation P_C08 at the end of the case"


@prop("C12")
def c12(ctx):
    reader_check(ctx, "C12", (4, "{0}", "Buf_none", "{TRUE}", "Maxes_none"),
                 ["reader:cut"], gen_args=None,
                 thorough_mc_args=(5, "{0}", "Buf_none", "{TRUE}", "Maxes_none"))
    ctx.rule = "one evaluation = one run; each case holds the run over a whole valid document and one run per cut position (all cuts for small documents, boundaries +-1 and random cuts otherwise) under varying capacity and chunking; relation P_C12 (complete prefix, then Ends or an accurate UnexpectedEOF); non-trivial = run with >= 1 result"


@prop("C13")
def c13(ctx):
    reader_check(ctx, "C13", (4, "{0, 1, 2, 3, 4, 5, 6, 7}", "Buf_none", "{TRUE}", "Maxes_2"),
                 ["reader:tol"], gen_args=None,
                 thorough_mc_args=(5, "{0, 1, 2, 4, 7}", "Buf_none", "{TRUE}", "Maxes_2"))
    ctx.rule = "one evaluation = one run; each case runs one input (valid document with one injected fault of a class, or mutated document) under all 8 tolerance sets (and limits); relations P_C13 at the end of the case"


def mc_calls(ctx, name, junk, maxlen, maxcalls, invariants, maxjunk=2):
    consts = {"MaxLen": maxlen, "Sigma": SIGMA12, "MaxCalls": maxcalls, "JunkMode": "TRUE" if junk else "FALSE", "JunkBytes": "{144, 160, 255, 1, 16}", "MaxJunk": maxjunk}
    r = C.tlc_mc(ctx.prop + "_" + name, "MC_ReaderCalls", cfg(constants=consts, invariants=invariants), workers=12, timeout=3000, heap="12g", coverage=False)
    ctx.add_mc(r)
    return r


@prop("C14")
def c14(ctx):
    mc_calls(ctx, "MC_Junk", True, 3, 60, ["TypeOK", "Inv_C14", "Inv_Junk"], maxjunk=2 if ctx.quick else 3)
    mc_calls(ctx, "MC_Calls", False, 3 if ctx.quick else 4, 5, ["TypeOK", "Inv_C14"])
    reader_check(ctx, "C14", None, ["reader:junk", "reader:total"], gen_args=None)
    ctx.rule = "one evaluation = one run; junk cases pair the run over a valid known-size document with a next/try_recover run over the document with junk inserted at a tag boundary; total cases interleave next/try_recover arbitrarily (monotone, no panic, fails only by eof/io)"


@prop("C04")
def c04(ctx):
    consts = {"MaxLen": 4 if ctx.quick else 5, "Sigma": SIGMA12, "AllowSets": "{0}" if ctx.quick else "{0, 7}"}
    r = C.tlc_mc("C04_MC_Pause", "MC_Pause", cfg(constants=consts, invariants=["Inv_C04", "Bounded"]), workers=12, timeout=3000, heap="12g", coverage=False)
    ctx.add_mc(r)
    # the windowed reader refines the abstract one: every composition of the input into reads x capacities (and pauses)
    for nm, pauses, maxdoc in (("MC_ReaderBuf", "FALSE", 10 if ctx.quick else 12), ("MC_ReaderBuf_pauses", "TRUE", 8 if ctx.quick else 10)):
        rb = C.tlc_mc("C04_" + nm, "MC_ReaderBuf", cfg(constants={"Caps": "{16, 17}" if ctx.quick else "{16, 17, 20, 64}", "MaxDoc": maxdoc, "WithPauses": pauses, "WithErrors": "FALSE"},
                      invariants=["Refines", "WinInv", "CapInv"]), workers=8, timeout=3000, heap="12g", coverage=False)
        ctx.add_mc(rb)
    reader_check(ctx, "C04", None, ["reader:sched", "reader:sched_smallcap"], gen_args=None, l1=False, lb=True)
    ctx.rule = "one evaluation = one run; each case holds the reference run (whole input at once) and runs under read schedules (every partition for inputs <= 8 bytes quick / 11 thorough, random otherwise), capacities 0..4096 and temporary EOFs at tag boundaries; relation P_C04 (equal results incl. first error)"


# --------------------------------------------------------------------------- writer properties
def mc_writer(ctx, invariants, maxcalls, opset, props=("DestMonotone",), name="MC_Writer"):
    r = C.tlc_mc(ctx.prop + "_" + name, "MC_Writer", cfg(constants={"MaxCalls": maxcalls, "OpSet": '"%s"' % opset}, invariants=invariants, properties=props),
                 workers=12, timeout=3000, heap="12g", coverage=False)
    ctx.add_mc(r)
    if r["depth"] < maxcalls + 1:
        raise C.ToolError("vacuity: MC_Writer did not reach %d calls" % maxcalls)
    return r


def count_wruns(ctx, tf):
    cur, n = None, 0
    oc = ctx.extra.setdefault("trace_outcome_coverage", {})
    with open(tf) as f:
        for line in f:
            if '"ev":"wrun"' in line:
                if cur is not None:
                    ctx.count(cur, nontrivial=n > 1)
                cur, n = "", 0
            elif '"ev":"write"' in line:
                e = json.loads(line)
                n += 1
                cur += json.dumps([e["k"], e["id"], e["val"][:16], e["width"], e["unknown"], len(e["kids"])])
                key = e["k"] + ":" + e["res"]
                oc[key] = oc.get(key, 0) + 1
                if len(ctx.samples) < 5 and n == 3:
                    ctx.samples.append({k: e[k] for k in ("k", "id", "ty", "width", "unknown", "res", "dest_len")})
    if cur is not None:
        ctx.count(cur, nontrivial=n > 1)


def writer_check(ctx, mode, drivers, need=()):
    traces = []
    for d in drivers:
        tf = ctx.path(d.replace(":", "_") + ".ndjson")
        C.run_harness([d, "--out", tf, "--seed", ctx.seed, "--tier", ctx.tier], timeout=3000)
        traces.append((d, tf))
        count_wruns(ctx, tf)
    missing = [k for k in need if ctx.extra.get("trace_outcome_coverage", {}).get(k, 0) == 0]
    ctx.vacuity = ("vacuity: call outcomes never observed in the recorded traces: %s" % missing) if missing else None
    jobs = []
    with concurrent.futures.ThreadPoolExecutor(max_workers=5) as ex:
        for d, tf in traces:
            nm = "%s_%s" % (ctx.prop, d.replace(":", "_"))
            env = {"MODE": mode}
            env.update({dv: "1" for dv in ctx.known})
            jobs.append(("verdict", d, tf, ex.submit(C.tlc_trace_sharded, nm, "WriterTrace", tf, None, ctx.devs, 3000, "4g", env)))
            jobs.append(("l1", d, tf, ex.submit(C.tlc_trace_sharded, nm + "_L1", "WriterTrace", tf, None, "", 3000, "4g", {"MODE": "L1"})))
    div = 0
    for kind, d, tf, fut in jobs:
        tr = fut.result()
        if kind == "verdict":
            ctx.absorb(tr, tf)
        else:
            div += len(tr["rejects"])
            ctx.extra.setdefault("level1_conformance", []).append({"trace": d, "events": tr["states"] - 1, "model_divergence": len(tr["rejects"]), "first": tr["rejects"][:2]})
    ctx.extra["model_divergence_total"] = div
    ctx.assumptions += [
        "verdicts come from the property specification spec/props/P_%s.tla evaluated by TLC on recorded writer calls and strict read-backs (mode %s of trace/WriterTrace.tla); Level 1 (Writer.tla) conformance - result, bytes handed to the destination, open masters and buffer length of every call - is a reported statistic" % (mode if mode not in ("C02",) else "C01", mode),
        "bounded model MC_Writer: every sequence of <= N calls drawn from ~33 call shapes over schema S3; beyond it trees, presentations, options, sinks and failing calls are sampled (VERIF_SEED)",
        "the inherently ambiguous encodings (a global element or a raw tag directly after the end of an unknown-size master, C07) are not generated",
    ]


@prop("C01")
def c01(ctx):
    mc_writer(ctx, ["Inv_C01", "Inv_C10"], 4, "all")
    if not ctx.quick:
        mc_writer(ctx, ["Inv_C01"], 5, "core", name="MC_Writer5")
    writer_check(ctx, "C01", ["writer:rt"], need=("full:ok", "rawtag:ok", "start:ok"))
    ctx.rule = "one evaluation = one writer run (a random specification-conformant tree under a random presentation: Start/End, Full, unknown size where EBML makes the end unambiguous, explicit widths, raw tags) followed by the strict read-back of its output; distinct = distinct call sequences; non-trivial = more than one call"


@prop("C02")
def c02(ctx):
    mc_reader(ctx, "C02", 4 if ctx.quick else 5, "{0}", "Buf_none", "{TRUE}", "Maxes_none", invariants=["TypeOK", "Inv_C02"])
    writer_check(ctx, "C02", ["writer:fix"])
    ctx.rule = "one evaluation = one writer run re-writing the tags the real strict reader produced for a stream (independently encoded documents with non-canonical encodings - padded / zero-length integers, 4-byte floats, wide and unknown size fields - and mutated streams the strict reader still accepts), followed by the second read; relation r2 = r1"


@prop("C09")
def c09(ctx):
    mc_writer(ctx, ["Inv_C09", "Inv_C19"], 4, "all")
    if not ctx.quick:
        mc_writer(ctx, ["Inv_C09"], 5, "full", name="MC_Writer5")
    writer_check(ctx, "C09", ["writer:present", "writer:widths"], need=("full:ok", "start_unknown_dep:ok", "elem:size"))
    ctx.rule = "one evaluation = one writer run; each case presents one document in several ways (all Start/End; every / sampled subsets of masters as Full; deprecated vs option unknown-size call; sinks accepting 1..k bytes or answering Interrupted) or with several size options (widths 1-8, unknown size) with strict read-backs; driver widths: elements of 2^(7w)-2 .. 2^(7w) bytes written with width w (honoured exactly or rejected)"


@prop("C10")
def c10(ctx):
    mc_writer(ctx, ["Inv_C10"], 4, "all")
    if not ctx.quick:
        mc_writer(ctx, ["Inv_C10"], 5, "core", name="MC_Writer5")
    writer_check(ctx, "C10", ["writer:calls", "writer:rt_small", "writer:present", "writer:flush_open"])   # the monitor re-parses the destination after every call: no 16 KiB payloads here
    ctx.rule = "one evaluation = one writer run observed after every call (result, bytes handed to the destination); the monitor P_C10 re-parses the destination with the reader design at every quiescent point"


@prop("C19")
def c19(ctx):
    mc_writer(ctx, ["Inv_C19", "Inv_C19_Class"], 4, "all")
    if not ctx.quick:
        mc_writer(ctx, ["Inv_C19", "Inv_C19_Class"], 5, "full", name="MC_Writer5")
    writer_check(ctx, "C19", ["writer:calls"], need=("elem:unexpected_tag", "elem:size", "rawtag:id", "end:closing", "full:unexpected_tag", "start:unexpected_tag"))
    ctx.rule = "one evaluation = one writer run; each case pairs a valid call sequence with failing calls of every kind (tag not allowed here, size not representable in the width, unknown size on a non-master, malformed raw id, End of a non-innermost master, Full with an invalid child / grandchild) inserted at random positions with the sequence without them"


@prop("C11")
def c11(ctx):
    consts = {"NIds": 3, "MaxP": 3, "MaxC": 4 if ctx.quick else 5}
    r = C.tlc_mc("C11_MC_PathMatch", "MC_PathMatch", cfg(constants=consts, invariants=["AlgoEqualsDeclarative", "RootOnlyAtTop", "NamedParentsExact", "WholeChainConsumed", "GlobBounds"]), workers=12, heap="8g")
    ctx.add_mc(r)
    ctx.need_coverage(r, ["GrowP", "Turn", "GrowC"])
    traces = []
    for d in ["paths", "paths_exhaustive"]:
        tf = ctx.path(d + ".ndjson")
        C.run_harness([d, "--out", tf, "--seed", ctx.seed, "--tier", ctx.tier], timeout=3000)
        traces.append(tf)
        oc = ctx.extra.setdefault("verdict_coverage", {})
        for line in open(tf):
            if '"ev":"path"' in line:
                e = json.loads(line)
                ctx.count(json.dumps([e["chain"], e["unk"], e["tag"], e["tag_unknown"]]) + line[:0], nontrivial=len(e["chain"]) > 0)
                for k in ("w:" + e["w"], "r:" + e["r"]):
                    oc[k] = oc.get(k, 0) + 1
                if len(ctx.samples) < 5 and len(e["chain"]) >= 2 and e["r"] != "na":
                    ctx.samples.append(e)
    for k in ("w:ok", "w:unexpected_tag", "r:ok", "r:hier"):
        if ctx.extra["verdict_coverage"].get(k, 0) == 0:
            raise C.ToolError("vacuity: verdict never observed: " + k)
    for tf in traces:
        ctx.validate("C11_" + os.path.basename(tf)[:-7], "PathTrace", tf, per_case=False)
    ctx.rule = "one evaluation = one (specification, chain of open masters with known/unknown sizes, tag) triple with the real writer's verdict (tag written after opening the chain) and the real strict reader's verdict (element after the chain's master headers); distinct = distinct (chain, sizes, tag) within a specification; non-trivial = at least one master open. paths: random specifications with placeholders in trailing and intermediate position, random walks; paths_exhaustive: the bounded universe of MC_PathMatch (every pattern of <= 3 parts x every chain of <= 4 masters; 1/8 sample in quick) replayed into the real writer"
    ctx.assumptions += ["Matches (declarative path semantics) is the oracle; MC_PathMatch proves the single-pass matcher MatchAlgo equal to it on the bounded universe", "reader verdicts are taken only for chains that start at a root element (no implied ancestors)"]


@prop("C17")
def c17(ctx):
    reader_check(ctx, "C17", (4, "{0, 4, 7}", "Buf_none", "{TRUE}", "Maxes_both"),
                 ["reader:adversarial", "reader:mutate", "reader:total"], gen_args=None,
                 thorough_mc_args=(5, "{0, 4}", "Buf_none", "{TRUE}", "Maxes_both"), need=("too_big", "eof", "oversized"))
    ctx.rule = "one evaluation = one run over a header with an adversarial declared size (0 .. 2^56-2, every vint width, at the root and inside known-/unknown-size masters) under a limit M in {16, 1 KiB, 100 k, 1 MiB, default 4 GB, none}, a tolerance set and a capacity, payload mostly missing; every call records the peak heap growth (counting allocator) and the buffer capacity (hook); distinct as for C03"
    ctx.assumptions += ["peak heap growth is measured by the harness's counting global allocator around each call; 64 KiB slack covers error values, the emission queue and the returned item",
                        "no case asks the real code for more than 8 MiB it may legitimately allocate (sizes within a limit above that are not generated)"]


@prop("C20")
def c20(ctx):
    consts = {"MaxLen": 4 if ctx.quick else 5, "Sigma": SIGMA12, "Wrapper": '"header_aware"', "UseDocs": "FALSE"}
    r = C.tlc_mc("C20_MC_Async", "MC_Async", cfg(constants=consts, invariants=["Refines", "EndsOnce", "StepWise"]), workers=12, timeout=3000, heap="12g", coverage=False)
    ctx.add_mc(r)
    consts["UseDocs"] = "TRUE"    # longer documents (corrupt headers reaching past a buffered master, adjacent / nested buffered masters) x every split
    r2 = C.tlc_mc("C20_MC_Async_docs", "MC_Async", cfg(constants=consts, invariants=["Refines", "EndsOnce", "StepWise"]), workers=4, timeout=3000, heap="8g", coverage=False)
    ctx.add_mc(r2)
    if r["depth"] < 8:
        raise C.ToolError("vacuity: MC_Async explored only depth %d" % r["depth"])
    reader_check(ctx, "C20", None, ["async"], gen_args=None, l1=False)
    ctx.rule = "one evaluation = one run: the blocking iterator over the bytes, then TagIteratorAsync::next() loops and into_stream() on a single-threaded executor over a scripted AsyncRead (whole input at once; every partition for inputs <= 10 bytes; for inputs <= 160 bytes every position as the end of the first read and one byte per read; random partitions; inputs above the 64 KiB transfer buffer), with buffered-tag sets; relation P_C04 (items, offsets, first error; the stream by kind/id/value)"
    ctx.assumptions += ["MC_Async models the wrapper as repaired (header-aware: reads until the next item of the inner iterator has been received) and checks refinement to the blocking reader for every split of every input <= MaxLen over 12 byte values and the buffered sets {}, {A}, {B}, {A,B}; Wrapper = one_read (the code before commit 6c03323) and no_follow are refuted by TLC (documentation, not part of the check)",
                        "the async source of the driver is always Ready (Pending is a property of the executor, not of the wrapper, which only awaits read())"]


# --------------------------------------------------------------------------- C18
@prop("C18")
def c18(ctx):
    import derive_gen as G
    # (1) bounded model of the declaration language
    # (3 variants: > 10^9 declarations, does not finish; the thorough tier differs in the sampled volume)
    r = C.tlc_mc("C18_MC_Derive", "MC_Derive", cfg(constants={"MaxVariants": 2}, invariants=["AcceptedIsWellFormed", "AcceptedHasGlobals", "RejectsListedFaults"]), workers=12, heap="8g", coverage=False)
    ctx.add_mc(r)
    # (2) the macro implementation as a library: acceptance of both front-ends
    n_ok, n_bad = (150, 250) if ctx.quick else (1200, 2500)
    decls = G.declarations(ctx.seed, n_ok, n_bad)
    din = ctx.path("decls_in.ndjson")
    with open(din, "w") as f:
        for d in decls:
            f.write(json.dumps({"n": d["n"], "variants": [{k: v[k] for k in ("name", "id", "ty", "path", "has_id", "has_ty", "dup_id")} for v in d["variants"]]}) + "\n")
    probe_dir = os.path.join(C.HARNESS, "derive_probe")
    if not os.path.exists(os.path.join(probe_dir, "Cargo.lock")):
        import shutil
        shutil.copy(os.path.join(C.REPO, "Cargo.lock"), os.path.join(probe_dir, "Cargo.lock"))
    p = subprocess.run(["cargo", "build", "--offline"], cwd=probe_dir, env=C.offline_env(), stdout=subprocess.PIPE, stderr=subprocess.STDOUT, text=True)
    if p.returncode != 0:
        raise C.ToolError("derive-probe build failed:\n" + p.stdout[-3000:])
    dout = ctx.path("decls_out.ndjson")
    p = subprocess.run([os.path.join(C.HARNESS, "target-probe", "debug", "derive-probe"), din, dout], stdout=subprocess.PIPE, stderr=subprocess.PIPE, text=True)
    if p.returncode != 0:
        raise C.ToolError("derive-probe failed: " + p.stderr[-2000:])
    verdicts = {json.loads(l)["n"]: json.loads(l) for l in open(dout)}
    # (3) generated code of the declarations both front-ends accept, compiled by the real macros against /repo
    accepted = [d for d in decls if verdicts[d["n"]]["attr"] == "ok" and verdicts[d["n"]]["easy"] == "ok"]
    accepted = accepted[: (120 if ctx.quick else 1000)]
    gen_dir = os.path.join(C.HARNESS, "gencrate")
    rs = ctx.path("decls.rs")
    with open(rs, "w") as f:
        f.write(G.gencrate_source(accepted))
    if not os.path.exists(os.path.join(gen_dir, "Cargo.lock")):
        import shutil
        shutil.copy(os.path.join(C.REPO, "Cargo.lock"), os.path.join(gen_dir, "Cargo.lock"))
    p = subprocess.run(["cargo", "build", "--offline"], cwd=gen_dir, env=C.offline_env({"VERIF_DECLS_RS": rs}), stdout=subprocess.PIPE, stderr=subprocess.STDOUT, text=True)
    tables = {}
    if p.returncode != 0:
        # a declaration the macro-as-library accepted does not compile: that is a finding about the macro, shown as a violation below
        ctx.extra["gencrate_build_error"] = p.stdout[-1500:]
        raise C.ToolError("generated crate does not build although both front-ends accepted every declaration in it:\n" + p.stdout[-2500:])
    tout = ctx.path("tables.ndjson")
    p = subprocess.run([os.path.join(C.HARNESS, "target-gen", "debug", "gencrate"), tout], stdout=subprocess.PIPE, stderr=subprocess.PIPE, text=True)
    if p.returncode != 0:
        # a panic of generated code ("bad specification") is data
        ctx.extra["gencrate_run_error"] = p.stderr[-1500:]
    for l in open(tout):
        e = json.loads(l)
        tables[(e["n"], e["front"])] = (e["rows"], e["panics"])
    # (4) the trace: decl events for all declarations, table events for the compiled ones
    tf = ctx.path("derive.ndjson")
    kinds = {}
    with open(tf, "w") as f:
        for d in decls:
            f.write(json.dumps({"ev": "case", "n": d["n"], "comp": "derive"}, separators=(",", ":")) + "\n")
            vs = [{"name": v["name"], "id": v["idw"], "ty": v["ty"], "path": v["path"], "has_id": v["has_id"], "has_ty": v["has_ty"], "dup_id": v["dup_id"]} for v in d["variants"]]
            vd = verdicts[d["n"]]
            f.write(json.dumps({"ev": "decl", "n": d["n"], "kind": d["kind"], "variants": vs, "attr": vd["attr"] if vd["attr"] != "panic" else "error", "easy": vd["easy"] if vd["easy"] != "panic" else "error",
                                "tokens_equal": vd["tokens_equal"], "src": vd["attr_src"][:400]}, separators=(",", ":")) + "\n")
            kinds[d["kind"] + ":" + vd["attr"]] = kinds.get(d["kind"] + ":" + vd["attr"], 0) + 1
            ctx.count(json.dumps(vs), nontrivial=len(vs) > 1)
            for front in ("attr", "easy"):
                if (d["n"], front) in tables:
                    f.write(json.dumps({"ev": "table", "n": d["n"], "front": front, "variants": vs, "rows": tables[(d["n"], front)][0], "panics": tables[(d["n"], front)][1]}, separators=(",", ":")) + "\n")
            if len(ctx.samples) < 4 and d["n"] % 97 == 3:
                ctx.samples.append({"kind": d["kind"], "source": vd["attr_src"][:300], "attr": vd["attr"], "easy": vd["easy"]})
        f.write(json.dumps({"ev": "end"}, separators=(",", ":")) + "\n")
    ctx.extra["declaration_kinds_by_verdict"] = kinds
    ctx.extra["generated_specifications_compiled"] = len(accepted) * 2
    if not any(k.startswith("broken") and k.endswith(":error") for k in kinds) or not kinds.get("ok:ok"):
        raise C.ToolError("vacuity: no accepted or no rejected declarations")
    ctx.validate("C18_DeriveTrace", "DeriveTrace", tf, per_case=True)
    ctx.rule = "one evaluation = one enum declaration run through both macro front-ends (macro sources of the working tree called as a library on token streams): random well-formed declarations (1-9 variants, six types, ids of 1-8 bytes and non-vint ids, paths of any depth with placeholders) and declarations broken by one rule (13 rules); the accepted ones are additionally compiled with the real macros and every declared id plus undeclared probe ids queried through the generated trait functions; distinct = distinct declarations; non-trivial = more than one variant"
    ctx.assumptions += ["DeriveDecl.tla (Accepts, Table) is the reference semantics of the declaration language; compile errors are observed as rejections of the macro implementation called as a library (diagnostic texts are not checked)",
                        "translation validation: generated code is observed through its trait functions on probe values, not by inspecting tokens"]



# --------------------------------------------------------------------------- replay of a violation file
TRACE_MODULE = {"reader": "ReaderTrace", "writer": "WriterTrace", "codec": "CodecTrace", "paths": "PathTrace", "derive": "DeriveTrace"}


def replay(ctx, path):
    """./check <id> --replay <file>: re-execute the recorded calls of the case against the current tree (reader and
    writer cases), then validate the fresh trace against the property specification."""
    lines = C.read_lines(path)
    first = json.loads(lines[0]) if lines else {}
    comp = first.get("comp", "codec" if first.get("ev") == "codec" else "reader")
    tf = path
    if comp in ("reader", "writer"):
        tf = ctx.path("rerun.ndjson")
        C.run_harness(["rerun", "--in", path, "--out", tf], timeout=600, allow_rc=(0,))
        ctx.extra["replay"] = "re-executed against the current tree"
    else:
        ctx.extra["replay"] = "recorded events re-validated (this component's cases are not re-executed)"
    if not C.read_lines(tf)[-1].startswith('{"ev":"end"'):
        with open(tf, "a") as f:
            f.write('{"ev":"end"}\n')
    env = {"MODE": ctx.prop}
    env.update({dv: "1" for dv in ctx.known})
    tr = C.tlc_trace(ctx.prop + "_replay", TRACE_MODULE.get(comp, "ReaderTrace"), tf, None, ctx.devs, 600, "4g", env)
    ctx.absorb(tr, tf, per_case=comp not in ("codec", "paths"))
    ctx.count(path)
    ctx.count(path + "#")
    ctx.samples.append({"replayed": path})
    ctx.rule = "replay of one recorded case"
    ctx.mc.append({"name": "replay", "states": tr["states"], "transitions": tr["states"], "depth": tr["states"], "wall_s": tr["wall_s"], "cmd": tr["cmd"], "coverage": {}})


# --------------------------------------------------------------------------- binding self-test
def selftest():
    """Demonstrates that the specification is bound to the recorded executions: corrupt one recorded field, or remove one
    event, of an accepted trace and require the rejection at exactly that place."""
    import copy
    C.build_harness()
    wd = C.ensure_dir(os.path.join(C.WORK, "selftest"))
    results = []

    def gen(driver, name, cut=True):
        tf = os.path.join(wd, name + ".ndjson")
        C.run_harness([driver, "--out", tf, "--seed", 7, "--tier", "quick"])
        lines = C.read_lines(tf)[:6000]
        # cut at a case boundary
        while cut and lines and '"ev":"end"' not in lines[-1]:
            lines.pop()
        return lines

    def run(module, mode, lines, label, expect_line):
        tf = os.path.join(wd, "t.ndjson")
        with open(tf, "w") as f:
            f.write("\n".join(lines) + "\n")
        tr = C.tlc_trace("selftest", module, tf, None, "", 600, "3g", {"MODE": mode})
        hit = [int(r[0]) for r in tr["rejects"]]
        ok = (expect_line is None and not hit) or (expect_line is not None and hit and min(hit) in expect_line)
        results.append((label, ok, hit[:3], expect_line))
        C.log("  %-70s %s  rejected at %s (expected %s)" % (label, "ok" if ok else "FAILED", hit[:3], "none" if expect_line is None else sorted(expect_line)[:3]))

    def corrupt(lines, pick, mutate):
        k = next(i for i, l in enumerate(lines) if pick(json.loads(l)) and i > 20)
        e = json.loads(lines[k])
        mutate(e)
        out = list(lines)
        out[k] = json.dumps(e, separators=(",", ":"))
        return out, k + 1

    # reader
    docs = gen("reader:cut", "cut")
    run("ReaderTrace", "L1", docs, "reader trace accepted unchanged (L1)", None)
    t, k = corrupt(docs, lambda e: e.get("ev") == "next" and e.get("res") == "item" and e.get("kind") == "elem", lambda e: e.__setitem__("off", e["off"] + 1))
    run("ReaderTrace", "L1", t, "reader L1: offset of one item + 1", {k})
    run("ReaderTrace", "C03", t, "reader C03: offset of one item + 1", {k})
    t, k = corrupt(docs, lambda e: e.get("ev") == "next" and e.get("res") == "item" and e.get("kind") == "elem" and e["val"], lambda e: e["val"].__setitem__(len(e["val"]) - 1, (e["val"][-1] + 1) % 256))
    run("ReaderTrace", "C03", t, "reader C03: one value byte changed", {k})
    t, k = corrupt(docs, lambda e: e.get("ev") == "next" and "st" in e, lambda e: e["st"].__setitem__("len", e["st"]["len"] + 1))
    run("ReaderTrace", "LB", t, "reader LB: buffered length (hook) + 1", {k})
    k = next(i for i, l in enumerate(docs) if '"kind":"start"' in l and i > 20)
    run("ReaderTrace", "L1", docs[:k] + docs[k + 1:], "reader L1: one next event (a Start) removed", {k + 1, k + 2, k + 3, k + 4})
    run("ReaderTrace", "C06", docs[:k] + docs[k + 1:], "reader C06: one Start removed", {k + 1, k + 2, k + 3, k + 4})
    # writer
    w = gen("writer:calls", "calls")
    run("WriterTrace", "L1", w, "writer trace accepted unchanged (L1)", None)
    t, k = corrupt(w, lambda e: e.get("ev") == "write" and e.get("dest_tail"), lambda e: e["dest_tail"].__setitem__(0, (e["dest_tail"][0] + 1) % 256))
    run("WriterTrace", "L1", t, "writer L1: one delivered byte changed", {k})
    t, k = corrupt(w, lambda e: e.get("ev") == "write" and e.get("res") not in ("ok", None), lambda e: e.__setitem__("res", "ok"))
    run("WriterTrace", "L1", t, "writer L1: a rejected call recorded as ok", {k})
    # codec
    cdc = gen("codec", "codec", cut=False)
    t, k = corrupt(cdc, lambda e: e.get("fn") == "as_vint_w" and e.get("res") == "ok", lambda e: e["bytes"].__setitem__(0, (e["bytes"][0] + 1) % 256))
    run("CodecTrace", "C15", t, "codec: first byte of one as_vint_with_length result changed", {k})
    # paths
    pth = gen("paths", "paths")
    t, k = corrupt(pth, lambda e: e.get("ev") == "path" and e.get("w") == "ok", lambda e: e.__setitem__("w", "unexpected_tag"))
    run("PathTrace", "C11", t, "paths: one writer verdict flipped", {k})
    bad = [r for r in results if not r[1]]
    C.log("selftest: %d checks, %d failed" % (len(results), len(bad)))
    with open(os.path.join(C.VERIF, "evidence", "binding_selftest.json"), "w") as f:
        json.dump({"checks": [{"what": r[0], "ok": r[1], "rejected_at": r[2]} for r in results]}, f, indent=1)
    return 1 if bad else 0
