#!/usr/bin/env python3
"""Regenerates MANIFEST.json from the table below (keeps it schema-valid at all times)."""
import json, os, sys
V = os.path.dirname(os.path.dirname(os.path.abspath(__file__)))
props = [json.loads(l) for l in open(os.path.join(V, "properties.jsonl"))]

# property -> (technique, level text, level note, design ref)
CLAIMED = {
 "C15": ("TLA+ reference codec (Vint.tla) model-checked by TLC; recorded calls of the real functions validated against it by TLC (CodecTrace)",
         "TLC explores the bounded codec model MC_Codec (every word <= 1 byte quick / <= 2 bytes thorough, boundary lattice, every width) checking round trip, canonicity, overflow, decoder totality/prefix/length, signed range and is_vint theorems; then every recorded call of the real as_vint / as_vint_with_length / read_vint / signed variants / is_vint (exhaustive small values, lattice +-2 around every 2^(7k), 2^(7k-1), 2^(8k), random 64-bit values, all slices <= 1-2 bytes, random slices <= 9 bytes, under catch_unwind) must equal the reference output. Pure functions: the model supplies an independent executable reference, the binding is input/output conformance.",
         "Trusted: TLC, the Json community module, the harness's recording (numbers -> byte arrays). Not exhaustive over 2^64; sampled beyond the small domain.", "6 C15"),
 "C16": ("TLA+ reference payload codec (Payload.tla) model-checked by TLC; recorded calls of arr_to_* and of the real writer/reader validated against it by TLC (CodecTrace)",
         "TLC checks on MC_Codec that the reference decoders are total, error exactly for over-long slices, treat the empty slice as 0 and invert the reference encoders with minimal 1/2/4/8 widths (floats bit-exact, f32 widening incl. subnormals/NaN); then every recorded call of the real arr_to_u64 / arr_to_i64 / arr_to_f64 and every element written by the real TagWriter (payload bytes + value read back by the real TagIterator) must equal the reference.",
         "Trusted: TLC, Json module, harness recording. Sampled beyond slices of <= 2 bytes and the value lattice.", "6 C16"),
}
NA_REASON = "check not built yet (work in progress in this round)"

def main():
    checks = []
    for p in props:
        pid = p["id"]
        if pid not in CLAIMED:
            continue
        tech, text, note, ref = CLAIMED[pid]
        checks.append({
            "property_id": pid,
            "quick_cmd": "./check %s --tier quick" % pid,
            "thorough_cmd": "./check %s --tier thorough" % pid,
            "evidence_file": "/verif/evidence/%s.json" % pid,
            "replay_cmd_template": "./check %s --replay {path}" % pid,
            "engine": "tlc+harness",
            "level_claimed": {"category": "model_checking", "text": text, "design_ref": "DESIGN.md section " + ref},
            "level_note": note,
            "technique": tech,
        })
    m = {
        "version": 1,
        "setup_cmd": "./check setup",
        "hooks": {
            "guard": "verif-hooks",
            "enable": "cargo feature `verif-hooks` of ebml-iterable; the harness (harness/Cargo.toml) depends on /repo by path with features derive-spec, futures, verif-hooks",
            "baseline_off_cmd": "cd /repo && cargo test --workspace --no-fail-fast --offline",
            "source_commits": ["d3bfdf7"],
            "add_only": True,
        },
        "engines": [
            {"name": "tlc", "path": "/verif/spec", "serves_properties": sorted(CLAIMED), "kind_free_text": "explicit TLA+ specification (spec/*.tla, spec/props, spec/mc bounded configurations, spec/trace trace specifications) checked with TLC"},
            {"name": "harness", "path": "/verif/harness", "serves_properties": sorted(CLAIMED), "kind_free_text": "Rust crate with a path dependency on /repo: drives the real code, records ndjson traces, replays TLC-generated behaviours"},
        ],
        "checks": checks,
        "notes": "All verdicts come from TLC evaluating the TLA+ specification (model checking of bounded configurations + validation of traces recorded from the real code). known_findings.txt lists known / fixed findings.",
        "not_applicable": [{"property_id": p["id"], "reason": NA_REASON} for p in props if p["id"] not in CLAIMED],
    }
    json.dump(m, open(os.path.join(V, "MANIFEST.json"), "w"), indent=1)
    print("MANIFEST.json: %d checks, %d not_applicable" % (len(checks), len(m["not_applicable"])))

main()
