#!/usr/bin/env python3
"""Regenerates MANIFEST.json from the table below (keeps it schema-valid at all times)."""
import json, os, sys
V = os.path.dirname(os.path.dirname(os.path.abspath(__file__)))
props = [json.loads(l) for l in open(os.path.join(V, "properties.jsonl"))]

# property -> (technique, level text, level note, design ref)
CLAIMED = {
 "C15": ("TLA+ reference codec (Vint.tla) model-checked by TLC; recorded calls of the real functions validated against it by TLC (CodecTrace)",
         "TLC explores the bounded codec model MC_Codec (every word <= 1 byte quick / <= 2 bytes thorough, boundary lattice, every width) checking round trip, canonicity, overflow, decoder totality/prefix/length, signed range and is_vint theorems; then every recorded call of the real as_vint / as_vint_with_length / read_vint / signed variants / is_vint (exhaustive small values, lattice +-2 around every 2^(7k), 2^(7k-1), 2^(8k), random 64-bit values, all slices <= 1-2 bytes, random slices <= 9 bytes, under catch_unwind) must equal the reference output. Pure functions: the model supplies an independent executable reference, the binding is input/output conformance.",
         "Trusted: TLC, the Json community module, the harness's recording (numbers -> byte arrays). Not exhaustive over 2^64; sampled beyond the small domain.", "6 C15"),
 "C16": ("TLA+ reference payload codec (Payload.tla) model-checked by TLC; recorded calls of arr_to_* and of the real writer/reader validated against it by TLC (CodecTrace)",
         "TLC checks on MC_Codec that the reference decoders are total, error exactly for over-long slices, treat the empty slice as 0 and invert the reference encoders with minimal 1/2/4/8 widths (floats bit-exact, f32 widening incl. subnormals/NaN); then every recorded call of the real arr_to_u64 / arr_to_i64 / arr_to_f64 and every element written by the real TagWriter (payload bytes + value read back by the real TagIterator) must equal the reference.",
         "Trusted: TLC, Json module, harness recording. Sampled beyond slices of <= 2 bytes and the value lattice.", "6 C16"),
}

RD_NOTE = "Trusted: TLC and the Json community module; the harness records the results of the public API (plus verif-hooks snapshots) without post-processing. Exhaustive only within the bounded model (every input over a 12-symbol alphabet up to length 4 quick / 5 thorough on schema S3); beyond it inputs, schemas, schedules and call histories are sampled (VERIF_SEED). Level 1 (ReaderCore) conformance is a reported statistic, not a verdict."
def rd(mode, what, mc, drivers):
    return ("TLA+ property specification P_%s (spec/props) checked by TLC against the Level 1 reader design on a bounded model (MC_Reader) and against traces recorded from the real TagIterator (trace/ReaderTrace.tla, mode %s)" % (mode, mode),
            "TLC explores MC_Reader (%s) and checks that the design ReaderCore satisfies %s; every terminal behaviour of a smaller bound is replayed into the real iterator; then the drivers %s run the real iterator and TLC validates each recorded run/case against P_%s (verdict) and against ReaderCore with every field bound (conformance statistic). %s" % (mc, what, drivers, mode, ""),
            RD_NOTE, "6 " + mode)
CLAIMED.update({
 "C03": rd("C03", "OffsetsMirror / Tiling / EndOffsets (each item re-derived from the bytes at its offset; hidden tiling cursor; End/Full offsets)", "all inputs <= 4/5 bytes, strict and fully tolerant, with/without buffering", "docs, mutate, buf, total"),
 "C04": ("TLA+ relation P_C04 (schedule independence) evaluated by TLC on paired runs of the real TagIterator: slice vs read schedules / capacities / EOF pauses",
         "For each input (valid, mutated, truncated) the harness records the reference run (whole input at once) and runs under read schedules (every partition of inputs <= 8 bytes quick / 11 thorough, random otherwise), capacities 0..4096 and temporary Ok(0) pauses at tag boundaries (single and sticky); TLC evaluates P_C04 (equal results item by item incl. the first error with all fields) per case, and each run against ReaderCore (statistic). The window model (ReaderBuf) is work in progress; the design-level part is the relation itself.",
         RD_NOTE, "6 C04"),
 "C05": rd("C05", "totality of every ReaderCore operator (TLC evaluation errors = panics), the linear item bound, Fused, and the monitor P_C05", "all inputs <= 4/5 bytes x tolerance x buffering x eofClose", "total (adversarial headers, random bytes, mutations, next/try_recover interleavings, injected source errors, capacities), mutate, sched_smallcap"),
 "C06": rd("C06", "WellNested / ChainValid / Contained / EndExactlyAtExhaustion / EofEnds (shadow-stack monitor P_C06)", "all inputs <= 4/5 bytes, strict, eofClose on/off", "docs, mutate, suffixes (mid-document starts), enc_nested"),
 "C07": rd("C07", "that every End of an unknown-size master sits exactly where ClosedBy / exhaustion / EOF puts it (monitor P_C07)", "all inputs <= 4/5 bytes, strict and hierarchy-tolerant", "enc_nested (unknown-size masters nested 1-5 deep followed by an element of every enclosing level, all 2^m encodings), enc (random trees, all/sampled subsets of masters unknown-size, compared with the all-known encoding), mutate"),
 "C08": rd("C08", "RollupEqualsFlat (relation P_C08 between the buffered and the unbuffered parse of the same input)", "all inputs <= 4/5 bytes x buffered sets {B},{A,B},{R2}", "buf (all/sampled subsets of master ids buffered; valid, mutated, truncated inputs; known/unknown sizes)"),
 "C12": rd("C12", "TruncOutcome (relation P_C12) for every valid document in the bound and every cut position", "all inputs <= 4/5 bytes, strict", "cut (every cut of small documents, boundaries +-1 and random cuts otherwise; capacities and chunkings)"),
 "C13": rd("C13", "OnlyOwnKindSilenced / NoRawInStrict / StrictPrefixOfTolerant (relations P_C13)", "all inputs <= 4/5 bytes x all 8 tolerance sets", "tol (valid documents with one injected fault per class - unknown id, misplaced element, oversized child, size above limit - and mutated documents, under all 8 tolerance sets and limits)"),
 "C14": ("TLA+ monitor + relation P_C14 evaluated by TLC on recorded runs of the real iterator with try_recover()",
         "The harness inserts junk runs (1-16 bytes that cannot begin a tag of the schema) at tag boundaries of valid known-size documents where the following tag still fits, and records next/try_recover/continue runs next to the run over the undamaged document; TLC evaluates P_C14 (prefix unchanged, exactly one error, recover ok, remainder identical with shifted offsets) and, over arbitrary next/try_recover interleavings on adversarial inputs, the monitor (never backwards, no panic, fails only by eof/io). RecoverCall of ReaderCore is validated on the same traces (statistic).",
         RD_NOTE, "6 C14"),
})

WR_NOTE = "Trusted: TLC and the Json community module; the harness records every call's result and what the scripted destination received (plus verif-hooks snapshots). Exhaustive only within MC_Writer (every sequence of <= 4 calls from ~33 call shapes on schema S3; 5 calls on subsets in thorough); beyond it documents, presentations, options, sinks and failing calls are sampled. Level 1 (Writer.tla) conformance is a reported statistic. The inherently ambiguous encodings that C07 excludes (global element / raw tag directly after the end of an unknown-size master) are not generated."
def wr(mode, what, drivers):
    return ("TLA+ property specification P_%s checked by TLC against the Level 1 writer design (Writer.tla, with the reader design ReaderCore for read-backs) on the bounded model MC_Writer, and against traces recorded from the real TagWriter / TagIterator (trace/WriterTrace.tla, mode %s)" % (mode, mode),
            "TLC explores MC_Writer and checks %s; then the drivers %s run the real writer (scripted sinks with short writes / Interrupted) and TLC validates each recorded case against P_%s (verdict) and against Writer.tla with result, delivered bytes, open masters and buffer length of every call bound (conformance statistic)." % (what, drivers, mode),
            WR_NOTE, "6 " + mode)
CLAIMED.update({
 "C01": wr("C01", "Inv_C01 (at every successful flush the strict parse of the output - by the reader design - is exactly the flat sequence of accepted tags) for every call sequence", "rt (random trees over S3 and random specifications with ids of 1-8 bytes; Start/End, Full, unknown size, explicit widths, raw tags; payload lengths 0,126-128,16382-16384; 64-bit value lattice; floats by bit pattern (special values, mantissas of <= 24 bits with exponents inside, on the edge of and outside the single-precision range, single-representable values, random patterns); strict read-back with the real iterator)"),
 "C02": ("TLA+ relation P_C01!Fixpoint checked by TLC on the bounded reader model (Inv_C02 of MC_Reader: every accepted stream re-written through the writer design reads back equal) and on recorded read / re-write / read cases of the real code",
         "MC_Reader enumerates every byte stream <= 4/5 bytes over the 12-symbol alphabet; for each one the strict design accepts from a root element, the writer design must accept its tags and the re-written bytes must parse to the same tags (Inv_C02). The driver fix reads independently encoded streams with non-canonical encodings (padded and zero-length integers, 4-byte floats, wide / unknown size fields) and mutated streams with the real strict reader, writes the tags back with the real writer and reads again; TLC evaluates the relation per case and Writer.tla conformance per call.",
         WR_NOTE, "6 C02"),
 "C09": wr("C09", "Inv_C09 (a Full item leaves exactly the state that Start, children, End leave; the deprecated unknown-size call equals the option-based one) and Inv_C19", "present (all Start/End vs every/sampled subset of masters as Full, deprecated vs option call, sinks taking 1..k bytes or answering Interrupted: byte-identical output; explicit widths 1-8 / unknown size: widths honoured exactly, same ids and payloads in order)"),
 "C10": wr("C10", "the monitor P_C10 after every call (prefix, nothing handed over while a known-size master is open, destination parses to the accepted tags at every quiescent point, flush closes all) and DestMonotone", "calls, rt, present"),
 "C19": wr("C19", "Inv_C19 (a rejected call leaves open, wbuf and dest unchanged - also inside Full: all or nothing) and Inv_C19_Class (each kind of invalid call is rejected with its specific error)", "calls (valid call sequences with failing calls of every kind inserted at random positions, paired with the sequence without them: final output and later results equal)"),
})

CLAIMED.update({
 "C11": ("TLA+ declarative path semantics (Schema!Matches) proved equal to a single-pass matcher on a bounded universe by TLC (MC_PathMatch); recorded hierarchy verdicts of the real writer and strict reader validated against it by TLC (PathTrace / P_C11)",
         "TLC checks MatchAlgo = Matches for every pattern of <= 3 parts (named parents, placeholders with min 0-2 and max unbounded/1/2/3 in leading, intermediate and trailing position) against every chain of <= 4/5 masters, plus the consequences the property states (roots only at top level, named parents exact, whole chain consumed, placeholder bounds). The driver paths builds random specifications with placeholders, opens chains with the real TagWriter by random walks (known- and unknown-size starts) and records for every attempted tag the writer's verdict and the strict reader's verdict on the corresponding byte stream (judged against the chain that remains after ClosedBy); paths_exhaustive replays the bounded universe of MC_PathMatch into the real writer. P_C11: verdict = Matches, rejections carry the offending id.",
         "Trusted: TLC, Json module, harness recording. Reader verdicts only for chains starting at a root element. Beyond the bounded universe specifications and chains are sampled.", "6 C11"),
 "C17": rd("C17", "CapBound (the buffer only grows for a payload that passed every header check, never beyond max(limit, initial capacity)) and the monitor P_C17", "all inputs <= 4/5 bytes with and without a size limit", "adversarial (declared sizes 0..2^56-2 in every vint width at the root and inside known-/unknown-size masters, limits 16..default 4 GB/none, tolerance sets, capacities; peak heap growth per call from a counting allocator, capacity from the hook), mutate, total"),
 "C18": ("TLA+ reference semantics of the declaration language (DeriveDecl: Accepts, Table) model-checked by TLC (MC_Derive); translation validation of the macros: acceptance of both front-ends and probes of compiled generated code validated against it by TLC (DeriveTrace / P_C18)",
         "TLC enumerates every declaration of <= 2 variants over a small vocabulary (MC_Derive: 5.4 M declarations) and checks that what Accepts admits denotes a well-formed schema (bad-specification panics unreachable) and that each listed kind of broken declaration is rejected. The macro sources of the working tree are called as a library on token streams for random well-formed declarations and declarations broken by one of 13 rules (both front-ends; acceptance and token equality recorded); accepted declarations are compiled with the real macros against /repo and every declared id plus undeclared probe ids are queried through the generated trait functions (type, path, constructors, accessors, id/value returned, raw tag) and exercised with the iterator and writer under catch_unwind. P_C18: res = Accepts(D), table = Table(D), no panic.",
         "Trusted: TLC, Json module, rustc. Compile errors are observed as rejections of the macro implementation called as a library; diagnostic texts are not checked. Declarations are sampled beyond the bounded model.", "6 C18"),
 "C20": ("TLA+ model of the async wrapper (MC_Async: header-aware reading loop around the blocking reader of ReaderCore) checked by TLC to refine the blocking reader for every split of the input into reads; recorded runs of TagIteratorAsync / into_stream validated against the blocking run by TLC (ReaderTrace mode C20, relation P_C04)",
         "MC_Async explores every input <= 4/5 bytes over 12 byte values, the buffered sets {}, {A}, {B}, {A,B} and every split of the input into async read results, and checks that the wrapper as implemented (reads until an item is queued, the next item has been received - header, payload, a buffered master's extent plus the item after it - or the source is exhausted) yields exactly the blocking iterator's results step by step, ending once; the pre-repair wrapper (one read per call) and a wrapper without the 'item after a buffered master' clause are refuted by TLC. The driver async runs the real TagIteratorAsync::next() loop and the stream adapter on a single-threaded executor over a scripted AsyncRead (whole input at once, every partition of inputs <= 10 bytes, every first-read length and byte-wise delivery for inputs <= 160 bytes, random partitions, inputs above the 64 KiB transfer buffer, buffered-tag sets) next to the blocking iterator; TLC evaluates the equality relation per case.",
         "Trusted: TLC, Json module, futures executor. The scripted source is always Ready (Pending belongs to the executor). The defect this check found (one read per call) was repaired in /repo (fix commit, see known_findings.txt); no known finding remains for C20.", "6 C20"),
})

# additions of later rounds (kept apart from the original level texts)
EXTRA = {
 "C05": " Additionally MC_ReaderBuf (WithErrors) lets the source fail once at any point of any read schedule of 9 documents and checks ErrSurfaces (the read error surfaces in that very call, never swallowed), and trace mode LB follows the windowed reader ReaderBuf through runs with injected source errors (statistic). Driver chain reads 2500 / 6000 sibling masters that are requested as buffered on a thread with a 256 KiB stack: the depth of the call stack must not grow with the number of siblings (an overflow aborts the process and is reported with that case as witness).",
 "C04": " Since the repair of the buffered-master collection (fix c844bff) no deviation is listed for C04: a pause of the source inside a buffered master is followed like any other pause.",
 "C08": " One known finding remains listed (DEV_BUFFERED_EOF_NOCLOSE): with end-of-stream closing disabled and the input ending inside a buffered master, the buffered parse ends cleanly without handing out the started master (what C04 demands for a pause); cases explained by exactly that precondition are reported as KNOWN-FINDING, anything else is a violation.",
 "C06": " The containment clause covers the header of unknown-size children (a header reaching past a known-size ancestor is the oversize error).",
 "C09": " Driver widths writes elements of 2^(7w)-2 .. 2^(7w) bytes with explicit width w (relation WidthExact: honoured exactly or rejected, never widened); the present driver also gives child masters of Full items as Start..End runs, puts size options on End calls (they mean nothing there) and writes one Full item with the unknown-size option (relation FullUnknown: rejected as a size error, or unknown size affected size fields only).",
 "C10": " Driver flush_open calls flush() / into_inner() while known- and unknown-size masters are open and continues with a second document; the monitor also requires (hook) that no master is open after a successful flush().",
 "C11": " The paths driver additionally enumerates, per specification, every chain spelled out by a declared path x every assignment of unknown sizes x every tag, so that the reader-side clause (judged against the chain that remains after closing unknown-size masters) is exercised systematically; a panic of the matcher is recorded as a verdict.",
 "C01": " The rt driver contains a family of known-size masters whose *body* has exactly 2^(7k)-1 bytes (sum of the children) followed by a global element - the neighbour that shows whether the size field still means 'known size'.",
 "C02": " The fix driver also re-writes the master-body boundary documents and documents in which an element with an upper-bounded placeholder was put deeper than its maximum (whatever the strict reader still accepts the writer must accept).",
 "C03": " Generators include NUL characters inside / at the end of strings and integer payloads on the sign boundary.",
 "C18": " The generated-crate exercise also builds, through the trait, a raw tag for every declared id and hands it to the writer and to the iterator's buffered-tag list (no 'bad specification' panic); the probed tables report whether a placeholder minimum was spelled out ((0-n) vs (-n)).",
 "C20": " Documents with ids of 5-8 bytes and 8-byte size fields (headers of 13-16 bytes) and corrupt children at the end of buffered masters are part of the async driver; MC_Async also runs a document mode (longer fixed documents x every split).",
 "C19": " Failing calls include Full items whose children are End / Start items that would end the item itself or masters opened before it, or stay open; End calls carrying size options; Full items with the unknown-size option (marked optional: if a writer accepts them the case says nothing about C19).",
}

NA_REASON = "check not built yet (work in progress in this round)"

def main():
    checks = []
    for p in props:
        pid = p["id"]
        if pid not in CLAIMED:
            continue
        tech, text, note, ref = CLAIMED[pid]
        text = text + EXTRA.get(pid, "")
        checks.append({
            "property_id": pid,
            "quick_cmd": "./check %s --tier quick" % pid,
            "thorough_cmd": "./check %s --tier thorough" % pid,
            "evidence_file": "/verif/evidence/%s.json" % pid,
            "replay_cmd_template": "./check %s --replay {path}" % pid,
            "engine": "tlc+harness",
            "level_claimed": {"category": "model_checking", "text": text, "design_ref": "DESIGN.md section " + ref},
            "level_note": note,
            "technique": tech,
        })
    m = {
        "version": 1,
        "setup_cmd": "./check setup",
        "hooks": {
            "guard": "verif-hooks",
            "enable": "cargo feature `verif-hooks` of ebml-iterable; the harness (harness/Cargo.toml) depends on /repo by path with features derive-spec, futures, verif-hooks",
            "baseline_off_cmd": "cd /repo && cargo test --workspace --no-fail-fast --offline",
            "source_commits": ["d3bfdf7", "bec6181"],
            "add_only": True,
        },
        "engines": [
            {"name": "tlc", "path": "/verif/spec", "serves_properties": sorted(CLAIMED), "kind_free_text": "explicit TLA+ specification (spec/*.tla, spec/props, spec/mc bounded configurations, spec/trace trace specifications) checked with TLC"},
            {"name": "harness", "path": "/verif/harness", "serves_properties": sorted(CLAIMED), "kind_free_text": "Rust crate with a path dependency on /repo: drives the real code, records ndjson traces, replays TLC-generated behaviours"},
        ],
        "checks": checks,
        "notes": "All verdicts come from TLC evaluating the TLA+ specification (model checking of bounded configurations + validation of traces recorded from the real code). known_findings.txt lists known / fixed findings.",
        "not_applicable": [{"property_id": p["id"], "reason": NA_REASON} for p in props if p["id"] not in CLAIMED],
    }
    json.dump(m, open(os.path.join(V, "MANIFEST.json"), "w"), indent=1)
    print("MANIFEST.json: %d checks, %d not_applicable" % (len(checks), len(m["not_applicable"])))

main()
