#!/usr/bin/env python3
"""./check <Cxx> [--tier quick|thorough] [--replay FILE]   |   ./check setup   |   ./check all

Decides one property of /verif/properties.jsonl for /repo's current working tree:
 1. rebuilds the harness against /repo (feature verif-hooks),
 2. model-checks the TLA+ specification (bounded configuration) with TLC,
 3. drives the real code (harness) and records ndjson traces,
 4. validates the traces with TLC against the property specification,
 5. classifies rejections against known_findings.txt, writes evidence/<id>.json.
"""
import hashlib
import json
import os
import sys
import time
import traceback

sys.path.insert(0, os.path.dirname(os.path.abspath(__file__)))
import common as C  # noqa: E402


class Ctx:
    def __init__(self, prop, tier, seed):
        self.prop, self.tier, self.seed = prop, tier, seed
        self.quick = tier == "quick"
        self.t0 = time.time()
        self.mc, self.traces = [], []
        self.violations, self.knowns_hit = [], {}
        self.samples, self.notes = [], []
        self.evaluations = 0
        self.distinct = set()
        self.rule = ""
        self.assumptions = []
        self.extra = {}
        self.vacuity = None
        self.known, self.fixed = C.load_known(prop)
        self.devs = ",".join(sorted(self.known))
        self.workdir = C.ensure_dir(os.path.join(C.WORK, prop))

    def path(self, name):
        return os.path.join(self.workdir, name)

    def add_mc(self, r):
        self.mc.append(r)
        C.log("  MC %-28s %9d states %10d transitions depth %d  %.1fs" % (r["name"], r["states"], r["transitions"], r["depth"], r["wall_s"]))

    def need_coverage(self, r, actions):
        """vacuity guard: every listed action / counter of the model must have been exercised"""
        missing = [a for a in actions if r["coverage"].get(a, 0) == 0]
        if missing:
            raise C.ToolError("vacuity: actions never taken in %s: %s" % (r["name"], missing))

    def violation(self, lines, why):
        k = len(self.violations) + 1
        if k <= 25:
            path = C.write_replay(self.prop, k, lines)
        else:
            path = os.path.join(C.WORK, "replay", "%s-overflow.ndjson" % self.prop)
        self.violations.append({"replay": path, "why": why})

    def known_hit(self, dev, what):
        self.knowns_hit.setdefault(dev, []).append(what)

    def validate(self, name, module, trace_file, cfg_text=None, heap="3g", timeout=1500, per_case=True, extra_env=None):
        """TLC trace validation + classification of REJECT / KNOWN lines (positions are 1-based lines)."""
        tr = C.tlc_trace_sharded(name, module, trace_file, cfg_text, self.devs, timeout, heap, extra_env)   # (splits only big, case-structured traces)
        lines = C.read_lines(trace_file)
        if not tr["consumed"]:
            raise C.ToolError("trace %s not fully consumed by %s: %s" % (trace_file, module, tr["unconsumed"]))
        seen_cases = set()
        for f in tr["rejects"]:
            pos = int(f[0])
            a, b = C.case_bounds(lines, pos) if per_case else (pos, pos)
            if (a, b) in seen_cases:
                continue
            seen_cases.add((a, b))
            self.violation(lines[a - 1:b], "line %d of case at %d: %s" % (pos - a + 1, a, " ".join(str(x) for x in f[1:])))
        for f in tr["knowns"]:
            self.known_hit(str(f[1]), " ".join(str(x) for x in f[2:]))
        tr["events"] = len(lines)
        tr["cases"] = sum(1 for l in lines if '"ev":"case"' in l)
        tr["cases_rejected"] = len(seen_cases)
        self.traces.append(tr)
        C.log("  TRACE %-25s %8d events %6d cases  %d rejected, %d known-finding hits  %.1fs" %
              (name, tr["events"], tr["cases"], len(seen_cases), len(tr["knowns"]), tr["wall_s"]))
        return tr

    def absorb(self, tr, trace_file, per_case=True):
        """classification of an already computed trace validation result"""
        lines = C.read_lines(trace_file)
        if not tr["consumed"]:
            raise C.ToolError("trace %s not fully consumed: %s" % (trace_file, tr["unconsumed"]))
        seen_cases = set()
        for f in tr["rejects"]:
            pos = int(f[0])
            a, b = C.case_bounds(lines, pos) if per_case else (pos, pos)
            if (a, b) in seen_cases:
                continue
            seen_cases.add((a, b))
            self.violation(lines[a - 1:b], "line %d of case at %d: %s" % (pos - a + 1, a, " ".join(str(x) for x in f[1:])))
        for f in tr["knowns"]:
            self.known_hit(str(f[1]), " ".join(str(x) for x in f[2:]))
        tr["events"] = len(lines)
        tr["cases"] = sum(1 for l in lines if '"ev":"case"' in l)
        tr["cases_rejected"] = len(seen_cases)
        self.traces.append(tr)
        C.log("  TRACE %-25s %8d events %6d cases  %d rejected, %d known-finding hits  %.1fs" %
              (tr["name"], tr["events"], tr["cases"], len(seen_cases), len(tr["knowns"]), tr["wall_s"]))
        return tr

    def finish(self, write=True):
        wall = time.time() - self.t0
        for dev, hits in sorted(self.knowns_hit.items()):
            print("KNOWN-FINDING: property=%s %s: %s (%d cases this run, e.g. %s)" % (self.prop, dev, self.known.get(dev, "?"), len(hits), hits[0]))
        for v in self.violations[:25]:
            print("VIOLATION property=%s replay=%s" % (self.prop, v["replay"]))
            C.log("   why: " + v["why"])
        if len(self.violations) > 25:
            C.log("   ... and %d more violating cases" % (len(self.violations) - 25))
        cov = {
            "states": sum(r["states"] for r in self.mc) or 0,
            "transitions": sum(r["transitions"] for r in self.mc) or 0,
            "traces_validated_against_impl": sum(t["cases"] - t["cases_rejected"] for t in self.traces),
            "samples": self.samples[:6] or ["(none)"],
            "evaluations": self.evaluations,
            "distinct_nontrivial": len(self.distinct),
            "rule": self.rule,
            "exhaustive": False,
            "model_checking_runs": [{k: r[k] for k in ("name", "states", "transitions", "depth", "wall_s", "cmd")} | {"action_coverage": r["coverage"]} for r in self.mc],
            "trace_validation_runs": [{k: t[k] for k in ("name", "events", "cases", "cases_rejected", "states", "wall_s", "cmd")} for t in self.traces],
            "checker_cmd": "; ".join(r["cmd"] for r in self.mc + self.traces),
            "known_findings_hit": {d: len(h) for d, h in self.knowns_hit.items()},
            "fixed_findings_on_record": ["%s %s" % f for f in self.fixed],
            "violating_cases": [v["why"] for v in self.violations[:10]],
            "repo_head": C.git_head(C.REPO),
        }
        cov.update(self.extra)
        if write:
            C.write_evidence(self.prop, self.tier, self.seed, "model_checking", cov, self.assumptions, wall, len(self.violations))
        C.log("%s %s: %s in %.1fs" % (self.prop, self.tier, "VIOLATION" if self.violations else "ok", wall))
        return 1 if self.violations else 0

    def count(self, key, nontrivial=True):
        self.evaluations += 1
        if nontrivial:
            self.distinct.add(hashlib.blake2b(key.encode() if isinstance(key, str) else key, digest_size=8).digest())


def main():
    args = sys.argv[1:]
    if not args:
        print(__doc__)
        return 2
    cmd = args[0]
    tier = os.environ.get("VERIF_TIER", "quick")
    if "--tier" in args:
        tier = args[args.index("--tier") + 1]
    seed = int(os.environ.get("VERIF_SEED", "1") or "1")
    replay = args[args.index("--replay") + 1] if "--replay" in args else None
    import props  # noqa: E402
    try:
        if cmd == "setup":
            return props.setup()
        if cmd == "selftest":
            return props.selftest()
        if cmd == "all":
            rc = 0
            for p in sorted(props.PROPS):
                try:
                    r = run_one(props, p, tier, seed, None)
                except C.ToolError as e:
                    C.log("TOOL ERROR: " + str(e))
                    r = 2
                rc = max(rc, r)
            return rc
        if cmd not in props.PROPS:
            C.log("unknown property / command: " + cmd)
            return 2
        return run_one(props, cmd, tier, seed, replay)
    except C.ToolError as e:
        C.log("TOOL ERROR: " + str(e))
        return 2
    except Exception:
        traceback.print_exc()
        return 2


def run_one(props, prop, tier, seed, replay):
    ctx = Ctx(prop, tier, seed)
    ctx.replay = replay
    C.log("== %s (%s, seed %d)" % (prop, tier, seed))
    if not replay or True:
        bt = C.build_harness()
        C.log("  harness built in %.1fs" % bt)
    if replay:
        props.replay(ctx, os.path.abspath(replay))
        return ctx.finish(write=False)
    props.PROPS[prop](ctx)
    # an outcome that never showed up makes a clean run vacuous (tool error) - unless the run found violations: a change that
    # makes a whole class of calls succeed also makes that class disappear, and the violations are the answer then
    if getattr(ctx, "vacuity", None) and not ctx.violations:
        raise C.ToolError(ctx.vacuity)
    return ctx.finish()


if __name__ == "__main__":
    sys.exit(main())
