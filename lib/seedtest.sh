#!/bin/bash
# seedtest.sh <prop> <worktree> <name> [extra props to run...]
# 1. re-verify the seeded change in its scratch worktree (suite passes, demo fails with / passes without)
# 2. store it under /verif/seeded/<name>/   3. apply to /repo, run ./check <prop>, undo
set -u
P=$1; WT=$2; NAME=$3; shift 3
OUT=/verif/seeded/$NAME; mkdir -p $OUT
cd $WT || exit 2
git checkout -q -- . 2>/dev/null; git stash list >/dev/null
cp OUT/patch.diff $OUT/patch.diff; cp OUT/seed_demo.rs $OUT/seed_demo.rs; cp OUT/notes.md $OUT/notes.md 2>/dev/null
cp OUT/seed_demo.rs tests/seed_demo.rs
# without the change
git checkout -q -- src specification specification-derive 2>/dev/null
DEMO_WITHOUT=$(cargo test --offline --features futures,derive-spec --test seed_demo 2>&1 | grep -E "^test result" | tail -1)
git apply OUT/patch.diff || { echo "patch does not apply"; exit 2; }
SUITE_WITH=$(cargo test --workspace --offline --features futures,derive-spec 2>&1 | grep -E "^test result" | grep -v "seed" | tr '\n' ';')
DEMO_WITH=$(cargo test --offline --features futures,derive-spec --test seed_demo 2>&1 | grep -E "^test result" | tail -1)
git checkout -q -- src specification specification-derive
echo "demo without: $DEMO_WITHOUT"; echo "demo with:    $DEMO_WITH"; echo "suite with (all targets incl. demo): $SUITE_WITH"
cd /verif
git -C /repo apply $OUT/patch.diff || { echo "patch does not apply to /repo"; exit 2; }
RES=""
for Q in $P "$@"; do
  ./check $Q > /verif/work/seed_$NAME.$Q.log 2>&1; RC=$?
  RES="$RES $Q:rc=$RC"
  grep -m3 "VIOLATION\|TOOL ERROR" /verif/work/seed_$NAME.$Q.log | cut -c1-200
  grep -m2 "why:" /verif/work/seed_$NAME.$Q.log | cut -c1-220
done
git -C /repo checkout -- .
echo "RESULT $NAME:$RES"
python3 - "$P" "$NAME" "$DEMO_WITHOUT" "$DEMO_WITH" "$SUITE_WITH" "$RES" <<'PY'
import json,sys
p,name,dwo,dw,sw,res=sys.argv[1:7]
notes=open('/verif/seeded/%s/notes.md'%name).read() if True else ''
meta={"property":p,"name":name,"breaks":p,"needs_to_manifest":"see notes.md (written by the seeding sub-agent)","verified":{"demo_without_change":dwo,"demo_with_change":dw,"suite_with_change":sw},"checks_run":res.strip(),"ran":"lib/seedtest.sh (patch applied to /repo with git apply, ./check <prop>, git checkout -- .)"}
json.dump(meta,open('/verif/seeded/%s/meta.json'%name,'w'),indent=1)
PY
