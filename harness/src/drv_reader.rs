//! Reader drivers: each produces cases made of one or more runs of the real TagIterator.
use crate::dynspec::{self, DynTag, Schema};
use crate::gen::{self, DocOpts, Node};
use crate::j::*;
use crate::reader::*;
use crate::rng::Rng;
use serde_json::json;

pub const SIGMA12: [u8; 12] = [0x80, 0x81, 0x82, 0x83, 0x84, 0x89, 0x8b, 0xec, 0xff, 0x40, 0x00, 0x90];

pub fn until_end() -> Calls { Calls::UntilEnd { extra: 1, max_calls: 400 } }

fn begin(out: &mut Out, n: &mut usize, s: &Schema, rel: &str, extra: serde_json::Value) {
    dynspec::install(s.clone());
    let mut x = json!({"rel": rel});
    if let serde_json::Value::Object(m) = extra { for (k, v) in m { x[k] = v; } }
    case_header::<DynTag>(out, *n, "reader", &s.ids(), x);
    *n += 1;
}

/// every byte string over SIGMA12 up to length `maxlen` (S3), under a few configurations
pub fn small(out: &mut Out, maxlen: usize, cfgs: &[ReaderCfg], stride: usize, seed: u64) {
    let s = gen::s3();
    let mut n = 0usize;
    let mut idx: u64 = 0;
    for len in 0..=maxlen {
        let total = 12usize.pow(len as u32);
        for k in 0..total {
            idx += 1;
            if stride > 1 && (idx.wrapping_mul(0x9E3779B97F4A7C15).wrapping_add(seed) >> 33) % (stride as u64) != 0 { continue; }
            let mut x = k; let mut inp = Vec::with_capacity(len);
            for _ in 0..len { inp.push(SIGMA12[x % 12]); x /= 12; }
            begin(out, &mut n, &s, "single", json!({}));
            for (ci, c) in cfgs.iter().enumerate() { run_reader::<DynTag>(out, &format!("cfg{ci}"), &inp, c, &[], &until_end()); }
            out.ev(json!({"ev":"end"}));
        }
    }
}

pub fn all_cfgs(s: &Schema, rng: &mut Rng) -> Vec<ReaderCfg> {
    let mut v = Vec::new();
    for bits in 0..8u8 {
        let mut c = ReaderCfg::strict().with_allow(bits);
        // mutated size fields may declare gigabytes: keep the limit small except in a few runs
        if !rng.chance(1, 16) { c.max = MaxCfg::Some(*rng.pick(&[64usize, 4096, 65536])); }
        if rng.chance(1, 3) { let ms = s.masters(); c.buffer = ms.into_iter().filter(|_| rng.chance(1, 2)).collect(); }
        if rng.chance(1, 4) { c.eof_close = false; }
        v.push(c);
    }
    v
}

pub fn mutate(rng: &mut Rng, bytes: &mut Vec<u8>) {
    if bytes.is_empty() { bytes.push(rng.next_u64() as u8); return; }
    let k = 1 + rng.below(3);
    for _ in 0..k {
        let i = rng.below(bytes.len().max(1));
        match rng.below(7) {
            0 => { if !bytes.is_empty() { bytes[i] ^= 1 << rng.below(8); } }
            1 => { if !bytes.is_empty() { bytes[i] = rng.next_u64() as u8; } }
            2 => { bytes.insert(i, rng.next_u64() as u8); }
            3 => { if !bytes.is_empty() { bytes.remove(i); } }
            4 => { if !bytes.is_empty() { bytes[i] = *rng.pick(&[0x00u8, 0xff, 0x80, 0x81, 0x01, 0x40, 0x7f]); } }
            5 => { let l = rng.below(bytes.len() + 1); bytes.truncate(l); }
            _ => { if !bytes.is_empty() { let v = bytes[i]; bytes[i] = v.wrapping_add(1); } }
        }
        if bytes.is_empty() { break; }
    }
}

/// random conformant documents (and optionally mutations of them) under all tolerance settings
pub fn docs(out: &mut Out, rng: &mut Rng, count: usize, mutated: bool, random_schema: bool) {
    let mut n = 0usize;
    for i in 0..count {
        let s = if random_schema && i % 2 == 1 { gen::rand_schema(rng, &gen::SchemaOpts { wide_ids: i % 4 == 3, globals: true, max_depth: 4 }) } else { gen::s3() };
        let o = DocOpts { max_tags: 25, unk_prob: (if i % 3 == 0 { 1 } else { 0 }, 3), widths: i % 5 == 0, noncanon: i % 7 == 0, ..Default::default() };
        let doc: Vec<Node> = gen::rand_doc(rng, &s, &o);
        let mut doc = doc;
        // an element whose path has a placeholder with a minimum, put at a shallower place than that (at the root, after the
        // document; or directly inside a root master): strict mode must refuse it
        if mutated && i % 4 == 3 {
            let lows: Vec<(&crate::dynspec::Entry, u64)> = s.entries.iter().filter(|e| e.ty != ebml_iterable::specs::TagDataType::Master)
                .filter_map(|e| e.path.iter().filter_map(|p| match p { ebml_iterable::specs::PathPart::Global((Some(mn), _)) if *mn >= 1 => Some(*mn), _ => None }).max().map(|mn| (e, mn))).collect();
            if !lows.is_empty() {
                let (e, mn) = *rng.pick(&lows[..]);
                let leaf = Node::leaf(e.id, gen::rand_val(rng, e.ty, false, false).0);
                if mn >= 2 && !doc.is_empty() && doc[0].is_master() && rng.chance(1, 2) { doc[0].kids.push(leaf); } else { doc.push(leaf); }
            }
        }
        let mut bytes = gen::encode_doc(&doc);
        if mutated && i % 4 != 3 { mutate(rng, &mut bytes); }
        if bytes.len() > 3000 { continue; }
        begin(out, &mut n, &s, "single", json!({"mutated": mutated}));
        let cfgs = if mutated { all_cfgs(&s, rng) } else { vec![ReaderCfg::strict(), { let mut c = ReaderCfg::strict(); c.buffer = s.masters().into_iter().filter(|_| rng.chance(1, 2)).collect(); c }] };
        for (ci, c) in cfgs.iter().enumerate() { run_reader::<DynTag>(out, &format!("cfg{ci}"), &bytes, c, &[], &until_end()); }
        out.ev(json!({"ev":"end"}));
    }
}

pub fn run(out: &mut Out, which: &str, seed: u64, thorough: bool) {
    let mut rng = Rng::new(seed);
    let k = if thorough { 10 } else { 1 };
    match which {
        "small" => {
            let mut cfgs = vec![ReaderCfg::strict()];
            let mut c = ReaderCfg::strict(); c.buffer = vec![0x82]; cfgs.push(c);
            small(out, if thorough { 5 } else { 4 }, &cfgs, if thorough { 3 } else { 4 }, seed);
        }
        "prefixed" => small_prefixed(out, 4, if thorough { 1 } else { 6 }, seed),
        "sizes" => sizes(out, &mut rng, 250 * k),
        "adversarial" => sizes_adversarial(out, &mut rng, 2500 * k),
        "docs" => docs(out, &mut rng, 300 * k, false, true),
        "mutate" => docs(out, &mut rng, 400 * k, true, true),
        "suffixes" => suffixes(out, &mut rng, 150 * k),
        "enc" => enc(out, &mut rng, 150 * k),
        "enc_nested" => enc_nested(out),
        "buf" => buf(out, &mut rng, 250 * k),
        "cut" => cut(out, &mut rng, 60 * k, if thorough { 400 } else { 120 }),
        "sched" => sched(out, &mut rng, 120 * k, if thorough { 11 } else { 8 }, &[None, Some(16), Some(17), Some(18), Some(31), Some(64), Some(4096)]),
        "sched_smallcap" => sched(out, &mut rng, 40 * k, 6, &[Some(0), Some(1), Some(2), Some(8), Some(15)]),
        "tol" => tol(out, &mut rng, 900 * k),
        "junk" => junk(out, &mut rng, 120 * k),
        "total" => total(out, &mut rng, 1500 * k),
        "chain" => chain(out, if thorough { 6000 } else { 2500 }),
        x => panic!("unknown reader driver {x}"),
    }
}

// =====================================================================================
// relation drivers
// =====================================================================================
fn pick_schema(rng: &mut Rng, i: usize) -> Schema {
    if i % 2 == 1 { gen::rand_schema(rng, &gen::SchemaOpts { wide_ids: i % 4 == 3, globals: i % 3 != 0, max_depth: 4 }) } else { gen::s3() }
}
fn small_doc(rng: &mut Rng, s: &Schema, max_tags: usize, unk: bool) -> Vec<Node> {
    let o = DocOpts { max_tags, unk_prob: (if unk { 1 } else { 0 }, 3), widths: rng.chance(1, 4), noncanon: rng.chance(1, 5), ..Default::default() };
    gen::rand_doc(rng, s, &o)
}

/// C07: the same tree with every (sampled) subset of its masters encoded with unknown size
pub fn enc(out: &mut Out, rng: &mut Rng, count: usize) {
    let mut n = 0usize;
    for i in 0..count {
        let s = pick_schema(rng, i);
        let mut doc = small_doc(rng, &s, 18, false);
        gen::clear_unknown(&mut doc);
        let flat = gen::flat_index(&doc);
        let masters: Vec<usize> = (0..flat.len()).filter(|k| flat[*k].is_master).collect();
        if masters.is_empty() { continue; }
        let known = gen::encode_doc(&doc);
        if known.len() > 1500 { continue; }
        begin(out, &mut n, &s, "enc", json!({"masters": masters.len()}));
        run_reader::<DynTag>(out, "known", &known, &ReaderCfg::strict(), &[], &until_end());
        let m = masters.len();
        let subsets: Vec<u64> = if m <= 5 { (1..(1u64 << m)).collect() } else { let mut v: Vec<u64> = (0..24).map(|_| rng.next_u64() & ((1u64 << m.min(60)) - 1)).collect(); v.push((1u64 << m.min(60)) - 1); v };
        let mut seen = std::collections::HashSet::new();
        for sub in subsets {
            let mut want = vec![false; flat.len()];
            for (bi, mi) in masters.iter().enumerate() { if bi < 60 && (sub >> bi) & 1 == 1 { want[*mi] = true; } }
            let mut d2 = doc.clone();
            let marked = gen::assign_unknown(&mut d2, &s, &want);
            if marked == 0 { continue; }
            let bytes = gen::encode_doc(&d2);
            if !seen.insert(bytes.clone()) { continue; }
            run_reader::<DynTag>(out, &format!("unk:{marked}"), &bytes, &ReaderCfg::strict(), &[], &until_end());
        }
        out.ev(json!({"ev":"end"}));
    }
}

/// systematic nesting for C07: unknown-size masters nested d deep, followed by an element of every enclosing level
pub fn enc_nested(out: &mut Out) {
    let s = Schema::parse("R:master=0x81, R/M1:master=0x82, R/M1/M2:master=0x83, R/M1/M2/M3:master=0x84, R/M1/M2/M3/M4:master=0x85, R/M1/M2/M3/M4/L5:uint=0x95, R/M1/M2/M3/L4:uint=0x94, R/M1/M2/L3:uint=0x93, R/M1/L2:uint=0x92, R/L1:uint=0x91, R2:master=0x8b, (-)/V:bin=0xec");
    let chain = [0x81u64, 0x82, 0x83, 0x84, 0x85];
    let leaf_at = [0x91u64, 0x92, 0x93, 0x94, 0x95]; // leaf allowed directly under chain[k]
    let mut n = 0usize;
    for depth in 1..=5usize {
        for close_level in 0..=depth {           // 0: a new root follows; k: a leaf of chain[k-1] follows
            for void_inside in [false, true] {
                // build chain[0..depth] nested, innermost holds one leaf (and optionally a global), then the follower
                fn nest(chain: &[u64], leaf_at: &[u64], k: usize, depth: usize, close_level: usize, void_inside: bool) -> Node {
                    let mut kids = Vec::new();
                    if k + 1 < depth { kids.push(nest(chain, leaf_at, k + 1, depth, close_level, void_inside)); }
                    else { kids.push(Node::leaf(leaf_at[k], gen::Val::U(k as u64))); if void_inside { kids.push(Node::leaf(0xec, gen::Val::B(vec![1, 2]))); kids.push(Node::leaf(leaf_at[k], gen::Val::U(7))); } }
                    if close_level == k + 1 && k + 1 < depth + 1 && !(k + 1 == depth) { kids.push(Node::leaf(leaf_at[k], gen::Val::U(99))); }
                    Node::master(chain[k], kids)
                }
                let mut doc = vec![nest(&chain, &leaf_at, 0, depth, close_level, void_inside)];
                if close_level == 0 { doc.push(Node::master(0x8b, vec![])); }
                let known = gen::encode_doc(&doc);
                begin(out, &mut n, &s, "enc", json!({"depth": depth, "close_level": close_level}));
                run_reader::<DynTag>(out, "known", &known, &ReaderCfg::strict(), &[], &until_end());
                let flat = gen::flat_index(&doc);
                let masters: Vec<usize> = (0..flat.len()).filter(|k| flat[*k].is_master && flat[*k].id != 0x8b).collect();
                for sub in 1..(1u64 << masters.len()) {
                    let mut want = vec![false; flat.len()];
                    for (bi, mi) in masters.iter().enumerate() { if (sub >> bi) & 1 == 1 { want[*mi] = true; } }
                    let mut d2 = doc.clone();
                    let marked = gen::assign_unknown(&mut d2, &s, &want);
                    if marked as u32 != sub.count_ones() { continue; }   // only unambiguous encodings
                    run_reader::<DynTag>(out, &format!("unk:{sub:b}"), &gen::encode_doc(&d2), &ReaderCfg::strict(), &[], &until_end());
                }
                out.ev(json!({"ev":"end"}));
            }
        }
    }
}

/// C08: unbuffered run and runs with every (sampled) subset of master ids buffered
pub fn buf(out: &mut Out, rng: &mut Rng, count: usize) {
    let mut n = 0usize;
    witness_buffered_eof(out, &mut n);
    for i in 0..count {
        let s = pick_schema(rng, i);
        let doc = small_doc(rng, &s, 22, i % 3 == 0);
        let mut bytes = gen::encode_doc(&doc);
        match i % 4 { 1 => mutate(rng, &mut bytes), 2 => { let l = rng.below(bytes.len() + 1); bytes.truncate(l); } _ => {} }
        if bytes.len() > 1500 { continue; }
        let mut ms = Vec::new(); for d in &doc { d.masters(&mut ms); } ms.sort(); ms.dedup();
        if ms.is_empty() { continue; }
        // every sixth case: reading starts in the middle of the document (at an inner tag): the implied ancestors may be in the buffered set
        if i % 6 == 5 && i % 4 != 1 && i % 4 != 2 {
            let lay = gen::layout(&doc);
            let inner: Vec<usize> = lay.iter().filter(|l| l.depth >= 1).map(|l| l.off).collect();
            if !inner.is_empty() { let at = *rng.pick(&inner[..]); bytes = bytes[at..].to_vec(); }
        }
        let mut base = ReaderCfg::strict().with_allow(if i % 4 == 1 { rng.below(8) as u8 } else { 0 });
        base.max = MaxCfg::Some(65536);
        if i % 5 == 4 { base.eof_close = false; }
        begin(out, &mut n, &s, "buf", json!({}));
        run_reader::<DynTag>(out, "flat", &bytes, &base, &[], &until_end());
        let subsets: Vec<u64> = if ms.len() <= 4 { (1..(1u64 << ms.len())).collect() } else { (0..12).map(|_| 1 + rng.next_u64() % ((1u64 << ms.len().min(60)) - 1)).collect() };
        for sub in subsets {
            let mut c = base.clone();
            c.buffer = ms.iter().enumerate().filter(|(k, _)| *k < 60 && (sub >> k) & 1 == 1).map(|(_, m)| *m).collect();
            run_reader::<DynTag>(out, &format!("buf:{sub:b}"), &bytes, &c, &[], &until_end());
        }
        out.ev(json!({"ev":"end"}));
    }
}

fn chunkings(rng: &mut Rng, len: usize, k: usize) -> Vec<Vec<Step>> {
    let mut v = vec![vec![], (0..len + 2).map(|_| Step::N(1)).collect::<Vec<_>>()];
    for _ in 0..k { let mut s = Vec::new(); let mut left = len; while left > 0 { let mx = *rng.pick(&[1usize, 2, 3, 7, 16, 40, 300]); let n = 1 + rng.below(mx); s.push(Step::N(n)); left = left.saturating_sub(n); } v.push(s); }
    v
}

/// C12: the whole valid document, then every (sampled) cut of it, under capacities and chunkings
pub fn cut(out: &mut Out, rng: &mut Rng, count: usize, all_cuts_below: usize) {
    let mut n = 0usize;
    for i in 0..count {
        let s = pick_schema(rng, i);
        let mut doc = small_doc(rng, &s, 14, false);
        gen::clear_unknown(&mut doc);
        if i % 3 == 0 { let flat = gen::flat_index(&doc); let want: Vec<bool> = (0..flat.len()).map(|_| rng.chance(1, 2)).collect(); gen::assign_unknown(&mut doc, &s, &want); }
        let bytes = gen::encode_doc(&doc);
        if bytes.is_empty() || bytes.len() > 700 { continue; }
        begin(out, &mut n, &s, "cut", json!({}));
        run_reader::<DynTag>(out, "full", &bytes, &ReaderCfg::strict(), &[], &until_end());
        let cuts: Vec<usize> = if bytes.len() <= all_cuts_below { (0..bytes.len()).collect() } else {
            let mut v: Vec<usize> = gen::boundaries(&doc); for _ in 0..30 { v.push(rng.below(bytes.len())); } for b in gen::boundaries(&doc) { v.push(b + 1); if b > 0 { v.push(b - 1); } } v.retain(|c| *c < bytes.len()); v.sort(); v.dedup(); v };
        for c in cuts {
            let mut cfg = ReaderCfg::strict();
            cfg.cap = *rng.pick(&[None, None, Some(16), Some(17), Some(64), Some(32)]);
            let sch = chunkings(rng, c, 1);
            let sched = sch[rng.below(sch.len())].clone();
            run_reader::<DynTag>(out, &format!("cut:{c}"), &bytes[..c], &cfg, &sched, &until_end());
        }
        out.ev(json!({"ev":"end"}));
    }
}

/// C04: reference run from a "slice" (everything delivered at once) against read schedules, capacities, pauses
/// systematic family for C04: an element whose payload is just below / at / above the capacity, followed by a complete
/// tag or by the first 1-3 bytes of one, under capacities 16..33 and whole / byte-wise delivery
fn sched_capacity_edges(out: &mut Out, n: &mut usize) {
    let s = gen::s3();
    for &plen in &[14usize, 15, 16, 17, 18, 30, 31, 32, 33, 34] {
        for tail in 0..4usize {
            for nested in [false, true] {
                let mut bytes: Vec<u8> = Vec::new();
                let mut el = vec![0xecu8]; el.extend(gen::size_field(plen as u64, 0)); el.extend((0..plen).map(|i| (i * 3 + 1) as u8));
                let follow = [0x8bu8, 0x80, 0x8b, 0x80];
                if nested { let mut body = el.clone(); body.extend([0x89, 0x81, 0x07]); bytes.extend([0x81]); bytes.extend(gen::size_field(body.len() as u64, 0)); bytes.extend(body); } else { bytes.extend(el); }
                bytes.extend(&follow[..tail]);
                for eof_close in [true, false] {
                    let mut base = ReaderCfg::strict(); base.eof_close = eof_close;
                    begin(out, n, &s, "sched", json!({"family":"capacity_edges"}));
                    run_reader::<DynTag>(out, "slice", &bytes, &base, &[], &until_end());
                    for cap in [16usize, 17, 18, 31, 32, 33] {
                        for bytewise in [false, true] {
                            let mut c = base.clone(); c.cap = Some(cap);
                            let sc: Vec<Step> = if bytewise { (0..bytes.len() + 2).map(|_| Step::N(1)).collect() } else { vec![] };
                            run_reader::<DynTag>(out, &format!("sched:cap{cap}"), &bytes, &c, &sc, &Calls::UntilEnd { extra: 1, max_calls: 200 });
                        }
                    }
                    out.ev(json!({"ev":"end"}));
                }
            }
        }
    }
}

pub fn sched(out: &mut Out, rng: &mut Rng, count: usize, exhaustive_below: usize, caps: &[Option<usize>]) {
    let mut n = 0usize;
    witness_buffered_eof(out, &mut n);
    sched_capacity_edges(out, &mut n);
    for i in 0..count {
        // every seventh case: ids of 5-8 bytes and 8-byte size fields - headers of 13-16 bytes, more than half of the look-ahead
        let long = i % 7 == 6;
        let s = if long { gen::rand_schema(rng, &gen::SchemaOpts { wide_ids: true, globals: i % 3 != 0, max_depth: 4 }) } else { pick_schema(rng, i) };
        let doc = if long { gen::rand_doc(rng, &s, &DocOpts { max_tags: 8, long_headers: true, unk_prob: (if i % 3 == 0 { 1 } else { 0 }, 3), ..Default::default() }) }
                  else { small_doc(rng, &s, if i % 6 == 0 { 40 } else { 8 }, i % 3 == 0) };
        let mut bytes = gen::encode_doc(&doc);
        match i % 5 { 1 => mutate(rng, &mut bytes), 2 => { let l = rng.below(bytes.len() + 1); bytes.truncate(l); } _ => {} }
        if bytes.len() > 2048 { continue; }
        let mut base = ReaderCfg::strict().with_allow(if i % 5 == 1 { rng.below(8) as u8 } else { 0 });
        base.max = MaxCfg::Some(65536);
        if i % 4 == 3 { let mut ms = Vec::new(); for d in &doc { d.masters(&mut ms); } base.buffer = ms.into_iter().filter(|_| rng.chance(1, 2)).collect(); }
        let pauses = i % 2 == 0;
        if pauses { base.eof_close = false; }
        begin(out, &mut n, &s, "sched", json!({}));
        run_reader::<DynTag>(out, "slice", &bytes, &base, &[], &until_end());
        let bounds = if i % 5 == 0 || i % 5 == 3 || i % 5 == 4 { gen::boundaries(&doc) } else { vec![] };
        let mut scheds: Vec<Vec<Step>> = Vec::new();
        if bytes.len() <= exhaustive_below && bytes.len() >= 1 {
            // every partition of the input into short reads
            for mask in 0..(1u32 << (bytes.len() - 1)) {
                let mut sc = Vec::new(); let mut run_len = 1;
                for b in 0..bytes.len() - 1 { if (mask >> b) & 1 == 1 { sc.push(Step::N(run_len)); run_len = 1; } else { run_len += 1; } }
                sc.push(Step::N(run_len)); scheds.push(sc);
            }
        } else { scheds = chunkings(rng, bytes.len(), 4); }
        for (k, sc) in scheds.iter().enumerate() {
            let mut c = base.clone();
            c.cap = *rng.pick(caps);
            let mut sc = sc.clone();
            if pauses && !bounds.is_empty() && (base.buffer.is_empty() || k % 3 == 0) {
                // temporary end-of-file exactly at (a subset of) tag boundaries: split chunks there and answer Ok(0) once
                let mut out_s = Vec::new(); let mut pos = 0usize;
                for st in sc { if let Step::N(nb) = st { let mut left = nb; while left > 0 { let nextb = bounds.iter().copied().find(|b| *b > pos && *b < pos + left); match nextb { Some(b) => { out_s.push(Step::N(b - pos)); left -= b - pos; pos = b; if rng.chance(1, 2) { out_s.push(if rng.chance(1, 2) { Step::Zero } else { Step::Pause }); } } None => { out_s.push(Step::N(left)); pos += left; left = 0; } } }
                    if bounds.contains(&pos) && rng.chance(1, 2) { out_s.push(if rng.chance(1, 2) { Step::Zero } else { Step::Pause }); } } }
                sc = out_s;
            }
            run_reader::<DynTag>(out, &format!("sched:{k}"), &bytes, &c, &sc, &Calls::UntilEnd { extra: 1, max_calls: 600 });
        }
        out.ev(json!({"ev":"end"}));
    }
}

/// C13: one input under all 8 tolerance sets; valid documents with one injected fault of each class
pub fn tol(out: &mut Out, rng: &mut Rng, count: usize) {
    let mut n = 0usize;
    tol_systematic(out, &mut n);
    for i in 0..count {
        let s = pick_schema(rng, i);
        let mut doc = small_doc(rng, &s, 16, false);
        gen::clear_unknown(&mut doc);
        let lay = gen::layout(&doc);
        let mut bytes = gen::encode_doc(&doc);
        if lay.is_empty() || bytes.len() > 1200 { continue; }
        let mut fault = json!({"class":"","off":0,"id":[]});
        let mut limit = MaxCfg::Some(65536);
        match i % 6 {
            0 => { // unknown id: overwrite the id of one tag with an id of the same length that is not in the specification
                let t = rng.pick(&lay).clone();
                let idb = gen::id_bytes(t.id);
                let mut used = s.ids();
                let mut newid;
                loop { newid = gen::rand_id(rng, &mut used, true); if gen::id_bytes(newid).len() == idb.len() { break; } }
                let nb = gen::id_bytes(newid);
                bytes[t.off..t.off + nb.len()].copy_from_slice(&nb);
                fault = json!({"class":"bad_id","off":t.off,"id":idw(newid)});
            }
            1 => { // element outside its allowed parents: append a leaf that is not allowed under some master
                let ms: Vec<usize> = (0..lay.len()).filter(|k| lay[*k].is_master).collect();
                // the hierarchy is only judged once a non-global element has fixed the document position
                if ms.is_empty() || !s.get(lay[0].id).map(|e| e.path.is_empty()).unwrap_or(false) { continue; }
                let flat = gen::flat_index(&doc);
                let mi = *rng.pick(&ms);
                let mut chain: Vec<u64> = vec![flat[mi].id]; let mut p = flat[mi].parent; while let Some(x) = p { chain.insert(0, flat[x].id); p = flat[x].parent; }
                let bad: Vec<&crate::dynspec::Entry> = s.entries.iter().filter(|e| e.ty != ebml_iterable::specs::TagDataType::Master && !gen::matches(&e.path, &chain)).collect();
                if bad.is_empty() { continue; }
                let e = *rng.pick(&bad);
                let (val, _) = gen::rand_val(rng, e.ty, false, false);
                let path = flat[mi].path.clone();
                gen::node_mut(&mut doc, &path).kids.push(Node::leaf(e.id, val));
                bytes = gen::encode_doc(&doc);
                let lay2 = gen::layout(&doc);
                // the appended leaf is the last child of master mi
                let idx = (0..lay2.len()).filter(|k| lay2[*k].parent == Some(mi) ).last().unwrap();
                fault = json!({"class":"hier","off":lay2[idx].off,"id":idw(e.id)});
            }
            2 => { // a child overrunning a known-size ancestor: enlarge the declared size of a binary/utf8 leaf inside a master
                // (half of the time some masters - possibly the direct parent - are unknown-size: the nearest known-size ancestor counts)
                let mut lay = lay.clone();
                if rng.chance(1, 2) {
                    let flat = gen::flat_index(&doc);
                    let want: Vec<bool> = (0..flat.len()).map(|_| rng.chance(1, 2)).collect();
                    gen::assign_unknown(&mut doc, &s, &want);
                    bytes = gen::encode_doc(&doc);
                    lay = gen::layout(&doc);
                }
                let known_anc = |t: &gen::Lay| -> Option<usize> { let mut p = t.parent; while let Some(x) = p { if !lay[x].unk { return Some(x); } p = lay[x].parent; } None };
                let cands: Vec<&gen::Lay> = lay.iter().filter(|t| !t.is_master && known_anc(t).is_some() && t.hlen - gen::id_bytes(t.id).len() == 1 && t.size < 100
                    && matches!(s.get(t.id).map(|e| e.ty), Some(ebml_iterable::specs::TagDataType::Binary) | Some(ebml_iterable::specs::TagDataType::Utf8))).collect();
                if cands.is_empty() { continue; }
                // prefer a leaf whose direct parent is unknown-size (the known-size master it overruns is further up)
                let deep: Vec<&gen::Lay> = cands.iter().copied().filter(|t| lay[t.parent.unwrap()].unk).collect();
                let t = if !deep.is_empty() && rng.chance(3, 4) { (*rng.pick(&deep)).clone() } else { (*rng.pick(&cands)).clone() };
                let par = &lay[known_anc(&t).unwrap()];
                let room = par.off + par.hlen + par.size - (t.off + t.hlen);   // bytes from this payload start to that ancestor's end
                let newsize = room + 1 + rng.below(5);
                if newsize >= 127 { continue; }
                bytes[t.off + t.hlen - 1] = 0x80 | newsize as u8;
                fault = json!({"class":"oversized","off":t.off,"id":idw(t.id)});
            }
            3 => { // declared size above the configured limit: the first tag (document order) whose size exceeds M
                let m = *rng.pick(&[4usize, 16, 64]);
                if let Some(t) = lay.iter().find(|t| t.size > m) { limit = MaxCfg::Some(m); fault = json!({"class":"too_big","off":t.off,"id":idw(t.id)}); } else { continue; }
            }
            4 => { mutate(rng, &mut bytes); }
            _ => {}
        }
        let root = !bytes.is_empty() && { let l = gen::layout(&doc); !l.is_empty() && s.get(l[0].id).map(|e| e.path.is_empty()).unwrap_or(false) && bytes[..gen::id_bytes(l[0].id).len().min(bytes.len())] == gen::id_bytes(l[0].id)[..gen::id_bytes(l[0].id).len().min(bytes.len())] };
        begin(out, &mut n, &s, "tol", json!({"fault": fault, "root": root}));
        for bits in 0..8u8 {
            let mut c = ReaderCfg::strict().with_allow(bits); c.max = limit.clone();
            run_reader::<DynTag>(out, &format!("allow:{bits}"), &bytes, &c, &[], &until_end());
        }
        if i % 6 == 5 { // the default limit stays in force until changed
            for bits in [0u8, 4, 7] { let c = ReaderCfg::strict().with_allow(bits); run_reader::<DynTag>(out, &format!("allow:{bits}:default"), &bytes, &c, &[], &until_end()); }
        }
        out.ev(json!({"ev":"end"}));
    }
}

/// C14: junk inserted at tag boundaries of valid known-size documents; next / try_recover / continue
pub fn junk(out: &mut Out, rng: &mut Rng, count: usize) {
    let mut n = 0usize;
    for i in 0..count {
        let s = pick_schema(rng, i);
        let mut doc = small_doc(rng, &s, 14, false);
        gen::clear_unknown(&mut doc);
        let bytes = gen::encode_doc(&doc);
        let lay = gen::layout(&doc);
        if lay.len() < 2 || bytes.len() > 800 { continue; }
        // bytes that can never begin a tag of this specification: one-byte ids that are not declared
        // ... and first bytes announcing an id length (1-8 bytes) of which the specification has no id at all
        let mut junk_bytes: Vec<u8> = (0x80u16..=0xfe).map(|b| b as u8).filter(|b| s.get(*b as u64).is_none()).collect();
        for len in 2..=8usize {
            if !s.entries.iter().any(|e| gen::id_bytes(e.id).len() == len) {
                let lo = 1u16 << (8 - len); for b in lo..(lo << 1) { junk_bytes.push(b as u8); junk_bytes.push(b as u8); }
            }
        }
        for round in 0..6 {
            // the last tags of the document are as likely as any other (junk shortly before the end of input)
            let t = if round < 2 { lay.len() - 1 - rng.below(lay.len().min(3)) } else { rng.below(lay.len()) };
            let at = lay[t].off;
            let jn = *rng.pick(&[1usize, 1, 2, 3, 5, 8, 16]);
            // the tag following the junk must still fit every enclosing known-size master after the shift
            let tag_end = lay[t].off + lay[t].hlen + if lay[t].is_master { 0 } else { lay[t].size };
            let tag_end_full = lay[t].off + lay[t].hlen + lay[t].size;
            let mut fits = true; let mut p = lay[t].parent;
            while let Some(x) = p { if tag_end_full + jn > lay[x].off + lay[x].hlen + lay[x].size { fits = false; } p = lay[x].parent; }
            let _ = tag_end;
            if !fits { continue; }
            let mut dmg = bytes[..at].to_vec();
            for _ in 0..jn { dmg.push(*rng.pick(&junk_bytes)); }
            dmg.extend_from_slice(&bytes[at..]);
            begin(out, &mut n, &s, "junk", json!({"at": at, "n": jn}));
            // the tolerance switches that cannot turn junk into items (oversized tags; hierarchy problems: the junk classes hold
            // no id of the specification) must not change how recovery works
            let allow = *rng.pick(&[0u8, 0, 4, 2, 6]);
            run_reader::<DynTag>(out, "orig", &bytes, &ReaderCfg::strict().with_allow(allow), &[], &until_end());
            let mut c = ReaderCfg::strict().with_allow(allow); if rng.chance(1, 3) { c.cap = Some(*rng.pick(&[16usize, 24, 64])); }
            let sch = chunkings(rng, dmg.len(), 1);
            let sc1 = sch[rng.below(sch.len())].clone();
            run_reader::<DynTag>(out, "dmg", &dmg, &c, &sc1, &Calls::Recovering { extra: 0, max_calls: 400 });
            out.ev(json!({"ev":"end"}));
        }
    }
}

/// C05: adversarial headers, random bytes, mutations; next/try_recover interleavings; injected source errors
pub fn total(out: &mut Out, rng: &mut Rng, count: usize) {
    let mut n = 0usize;
    let sizes: Vec<Vec<u8>> = {
        let mut v: Vec<Vec<u8>> = vec![vec![0x80], vec![0x81], vec![0x88], vec![0x89], vec![0xff], vec![0x40, 0x00], vec![0x7f, 0xff], vec![0x00], vec![0x01],
            vec![0x01, 0xff, 0xff, 0xff, 0xff, 0xff, 0xff, 0xff], vec![0x01, 0xff, 0xff, 0xff, 0xff, 0xff, 0xff, 0xfe], vec![0x01, 0, 0, 0, 0, 0, 0, 0], vec![0x08, 0, 0, 0, 1], vec![0x10, 0, 0, 0x20]];
        for w in 1..=8usize { v.push(gen::vint_w((1u64 << (7 * w)) - 1, w)); v.push(gen::vint_w((1u64 << (7 * w)) - 2, w)); v.push(gen::vint_w(0, w)); }
        v
    };
    for i in 0..count {
        let s = pick_schema(rng, i);
        let mut bytes: Vec<u8> = match i % 5 {
            0 => { // adversarial header sequences
                let mut b = Vec::new();
                for _ in 0..rng.range(1, 5) {
                    let id = if rng.chance(3, 4) { rng.pick(&s.entries).id } else { let mut u = s.ids(); gen::rand_id(rng, &mut u, true) };
                    b.extend(gen::id_bytes(id)); b.extend(rng.pick(&sizes).clone());
                    if rng.chance(1, 2) { let k = rng.below(10); b.extend(rng.bytes(k)); }
                }
                b
            }
            1 => { let k = rng.below(40); rng.bytes(k) }
            2 => { let n2 = rng.below(30); (0..n2).map(|_| *rng.pick(&SIGMA12)).collect() }
            _ => { let d = small_doc(rng, &s, 12, true); let mut b = gen::encode_doc(&d); mutate(rng, &mut b); b }
        };
        // every eleventh case: a valid document in which every string payload starts with an invalid byte, masters buffered, and
        // the caller reads on past each decode error (those consume their element)
        let decode_errors = i % 11 == 10;
        if decode_errors {
            let d = small_doc(rng, &s, 24, false);
            bytes = gen::encode_doc(&d);
            for l in gen::layout(&d).iter() { if !l.is_master && l.size > 0 && s.get(l.id).map(|e| e.ty == ebml_iterable::specs::TagDataType::Utf8).unwrap_or(false) { bytes[l.off + l.hlen] = 0xff; } }
        }
        bytes.truncate(1500);
        let mut c = ReaderCfg::strict().with_allow(rng.below(8) as u8);
        c.max = match rng.below(6) { 0 => MaxCfg::Default, 1 => MaxCfg::None, _ => MaxCfg::Some(*rng.pick(&[8usize, 64, 4096, 65536])) };
        // never let an adversarial size within the limit request gigabytes in this driver
        if !matches!(c.max, MaxCfg::Some(_)) && i % 5 != 4 { c.max = MaxCfg::Some(1 << 20); }
        if matches!(c.max, MaxCfg::Default | MaxCfg::None) { c.max = MaxCfg::Some(1 << 22); }
        if rng.chance(1, 3) { c.buffer = s.masters().into_iter().filter(|_| rng.chance(1, 2)).collect(); }
        c.eof_close = rng.chance(3, 4);
        c.cap = *rng.pick(&[None, None, Some(16), Some(17), Some(31), Some(64), Some(1024)]);
        let mut sc: Vec<Step> = if rng.chance(1, 2) { vec![] } else { let ch = chunkings(rng, bytes.len(), 2); ch[rng.below(ch.len())].clone() };
        if rng.chance(1, 4) { // one injected source error at a random read
            let k = rng.below(sc.len() + 1);
            let kind = *rng.pick(&[std::io::ErrorKind::TimedOut, std::io::ErrorKind::ConnectionReset, std::io::ErrorKind::Other, std::io::ErrorKind::PermissionDenied]);
            sc.insert(k, Step::Err(kind, format!("injected-{}", rng.below(1000))));
        }
        if decode_errors { c = ReaderCfg::strict(); c.buffer = s.masters().into_iter().filter(|_| rng.chance(2, 3)).collect(); c.max = MaxCfg::Some(1 << 20); }
        let calls = if decode_errors { Calls::Script((0..80).map(|_| Call::Next).collect()) } else { match rng.below(3) {
            0 => Calls::UntilEnd { extra: 3, max_calls: 400 },
            1 => Calls::Recovering { extra: 2, max_calls: 400 },
            _ => Calls::Script((0..rng.range(1, 40)).map(|_| if rng.chance(1, 4) { Call::Recover } else { Call::Next }).collect()),
        } };
        begin(out, &mut n, &s, "single", json!({}));
        run_reader::<DynTag>(out, "total", &bytes, &c, &sc, &calls);
        out.ev(json!({"ev":"end"}));
    }
}

/// C05: long runs of sibling masters that are requested as buffered (a Matroska file with thousands of buffered Clusters):
/// every call returns - the depth of the call stack must not grow with the number of siblings.  The cases are marked
/// `big`: the design-conformance modes (L1 / LB) skip them, the monitor P_C05 reads result classes only.
pub fn chain(out: &mut Out, siblings: usize) {
    let s = gen::s3();
    let mut n = 0usize;
    for (known_b, known_a) in [(true, false), (false, false), (true, true)] {
        // A{ B{Q=1} B{Q=1} ... }
        let mut body: Vec<u8> = Vec::with_capacity(siblings * 12);
        for k in 0..siblings {
            body.push(0x82);
            if known_b { body.push(0x83); } else { body.push(0xff); }
            body.extend([0x8a, 0x81, (k % 251) as u8]);
        }
        let mut bytes = vec![0x81];
        if known_a { bytes.extend(gen::size_field(body.len() as u64, 0)); } else { bytes.push(0xff); }
        bytes.extend(body);
        let mut c = ReaderCfg::strict(); c.buffer = vec![0x82];
        begin(out, &mut n, &s, "single", json!({"big": true}));
        // on a thread with a small stack (256 KiB): the depth of the call stack must not depend on the number of siblings -
        // an overflow aborts the process, which the check reports with this case as the witness
        out.flush();
        std::thread::scope(|sc| {
            let o = &mut *out;
            std::thread::Builder::new().stack_size(256 * 1024).spawn_scoped(sc, move || {
                run_reader::<DynTag>(o, "chain", &bytes, &c, &[], &Calls::UntilEnd { extra: 1, max_calls: siblings + 10 });
            }).expect("spawn").join().expect("chain thread");
        });
        out.ev(json!({"ev":"end"}));
    }
}

/// mid-document starts (C06): suffixes of valid documents beginning at an inner tag
pub fn suffixes(out: &mut Out, rng: &mut Rng, count: usize) {
    let mut n = 0usize;
    for i in 0..count {
        let s = pick_schema(rng, i);
        let doc = small_doc(rng, &s, 16, i % 3 == 0);
        let bytes = gen::encode_doc(&doc);
        let lay = gen::layout(&doc);
        if lay.len() < 2 || bytes.len() > 1000 { continue; }
        begin(out, &mut n, &s, "single", json!({}));
        for _ in 0..3 { let t = rng.pick(&lay); run_reader::<DynTag>(out, &format!("from:{}", t.off), &bytes[t.off..], &ReaderCfg::strict(), &[], &until_end()); }
        out.ev(json!({"ev":"end"}));
    }
}

/// replay of behaviours generated by TLC from the bounded model MC_Reader (schema S3)
pub fn replay(out: &mut Out, inp_path: &str) {
    let s = gen::s3();
    let mut n = 0usize;
    let text = std::fs::read_to_string(inp_path).expect("replay input");
    for line in text.lines() {
        let v: serde_json::Value = serde_json::from_str(line).expect("replay line");
        let input: Vec<u8> = v["input"].as_array().unwrap().iter().map(|x| x.as_u64().unwrap() as u8).collect();
        let mut c = ReaderCfg::strict();
        c.allow_id = v["allowId"].as_bool().unwrap(); c.allow_hier = v["allowHier"].as_bool().unwrap(); c.allow_size = v["allowSize"].as_bool().unwrap();
        c.eof_close = v["eofClose"].as_bool().unwrap();
        c.max = MaxCfg::Some(v["max"].as_u64().unwrap() as usize);
        c.buffer = v["buffered"].as_array().unwrap().iter().map(|idb| idb.as_array().unwrap().iter().fold(0u64, |a, x| (a << 8) | x.as_u64().unwrap())).collect();
        begin(out, &mut n, &s, "single", json!({}));
        run_reader::<DynTag>(out, "replay", &input, &c, &[], &until_end());
        out.ev(json!({"ev":"end"}));
    }
}

/// deterministic witnesses of the listed known findings (so that each check reports them on every run)
pub fn witness_buffered_eof(out: &mut Out, n: &mut usize) {
    let s = gen::s3();
    // A { B { C { U=1 } Q=2 } P=3 }
    let doc = vec![Node::master(0x81, vec![Node::master(0x82, vec![Node::master(0x83, vec![Node::leaf(0x84, gen::Val::U(1))]), Node::leaf(0x8a, gen::Val::U(2))]), Node::leaf(0x89, gen::Val::U(3))])];
    let bytes = gen::encode_doc(&doc);
    let lay = gen::layout(&doc);
    let q_off = lay.iter().find(|t| t.id == 0x8a).unwrap().off;   // a tag boundary inside buffered B
    let mut c = ReaderCfg::strict(); c.eof_close = false; c.buffer = vec![0x82];
    // C04: pause (temporary Ok(0)) at that boundary
    begin(out, n, &s, "sched", json!({"witness":"DEV_BUFFERED_EOF_NOCLOSE"}));
    run_reader::<DynTag>(out, "slice", &bytes, &c, &[], &until_end());
    run_reader::<DynTag>(out, "sched:pause", &bytes, &c, &[Step::N(q_off), Step::Pause, Step::Pause, Step::N(1000)], &Calls::UntilEnd { extra: 1, max_calls: 100 });
    out.ev(json!({"ev":"end"}));
    // C08: input ends at that boundary
    let mut flat = c.clone(); flat.buffer = vec![];
    begin(out, n, &s, "buf", json!({"witness":"DEV_BUFFERED_EOF_NOCLOSE"}));
    run_reader::<DynTag>(out, "flat", &bytes[..q_off], &flat, &[], &until_end());
    run_reader::<DynTag>(out, "buf:B", &bytes[..q_off], &c, &[], &until_end());
    out.ev(json!({"ev":"end"}));
}

/// every byte string over SIGMA12 of length `len` appended to fixed prefixes that open unknown-size masters
/// (systematic continuation of the bounded model beyond its length bound: what may follow inside / after such masters)
pub fn small_prefixed(out: &mut Out, len: usize, stride: usize, seed: u64) {
    let s = gen::s3();
    let prefixes: [&[u8]; 4] = [&[0x81, 0xff], &[0x81, 0xff, 0x82, 0xff], &[0x8b, 0xff], &[0x81, 0xff, 0x82, 0x84]];
    let mut n = 0usize;
    let mut idx: u64 = 0;
    for pre in prefixes.iter() {
        let total = 12usize.pow(len as u32);
        for k in 0..total {
            idx += 1;
            if stride > 1 && (idx.wrapping_mul(0x9E3779B97F4A7C15).wrapping_add(seed) >> 33) % (stride as u64) != 0 { continue; }
            let mut x = k; let mut inp = pre.to_vec();
            for _ in 0..len { inp.push(SIGMA12[x % 12]); x /= 12; }
            begin(out, &mut n, &s, "single", json!({}));
            run_reader::<DynTag>(out, "strict", &inp, &ReaderCfg::strict(), &[], &until_end());
            out.ev(json!({"ev":"end"}));
        }
    }
}

/// structure-aware corruption: rewrite the size field of one tag of a valid document (mixed known / unknown sizes)
/// so that it swallows following tags or cuts its own content short; strict and tolerant runs
pub fn sizes(out: &mut Out, rng: &mut Rng, count: usize) {
    let mut n = 0usize;
    for i in 0..count {
        let s = pick_schema(rng, i);
        let mut doc = small_doc(rng, &s, 12, false);
        gen::clear_unknown(&mut doc);
        let flat = gen::flat_index(&doc);
        let want: Vec<bool> = (0..flat.len()).map(|_| rng.chance(1, 2)).collect();
        gen::assign_unknown(&mut doc, &s, &want);
        let bytes = gen::encode_doc(&doc);
        let lay = gen::layout(&doc);
        if bytes.len() > 400 { continue; }
        let cands: Vec<&gen::Lay> = lay.iter().filter(|t| !t.unk && t.hlen - gen::id_bytes(t.id).len() == 1).collect();
        if cands.is_empty() { continue; }
        for _ in 0..4 {
            let t = (*rng.pick(&cands)).clone();
            let rest = bytes.len() - (t.off + t.hlen + t.size);
            let delta: i64 = if rng.chance(2, 3) && rest > 0 { 1 + rng.below(rest.min(24)) as i64 } else { -(1 + rng.below(t.size.max(1).min(8)) as i64) };
            let newsize = t.size as i64 + delta;
            if !(0..127).contains(&newsize) { continue; }
            let mut b2 = bytes.clone();
            b2[t.off + t.hlen - 1] = 0x80 | newsize as u8;
            begin(out, &mut n, &s, "single", json!({"rewritten": t.off}));
            run_reader::<DynTag>(out, "strict", &b2, &ReaderCfg::strict(), &[], &until_end());
            let mut c = ReaderCfg::strict().with_allow(*rng.pick(&[2u8, 4, 6, 7])); c.max = MaxCfg::Some(65536);
            run_reader::<DynTag>(out, "tolerant", &b2, &c, &[], &until_end());
            out.ev(json!({"ev":"end"}));
        }
    }
}

/// systematic C13 faults on S3: A { B { C { X } Q } P } with every known/unknown combination of A, B, C and
/// (a) X enlarged beyond the nearest known-size ancestor, (b) an unknown id in place of X, (c) a misplaced element
fn tol_systematic(out: &mut Out, n: &mut usize) {
    let s = gen::s3();
    for mask in 0..8u32 {
        for fault in 0..3 {
            let mut doc = vec![Node::master(0x81, vec![Node::master(0x82, vec![Node::master(0x83, vec![Node::leaf(0x84, gen::Val::U(1)), Node::leaf(0x88, gen::Val::B(vec![1, 2, 3]))]), Node::leaf(0x8a, gen::Val::U(2))]), Node::leaf(0x89, gen::Val::U(3))])];
            doc[0].unk = mask & 1 != 0; doc[0].kids[0].unk = mask & 2 != 0; doc[0].kids[0].kids[0].unk = mask & 4 != 0;
            if fault == 2 && mask & 6 == 6 { continue; }   // with B and C unknown-size, P legitimately ends them (it is a sibling of B)
            if fault == 2 { doc[0].kids[0].kids[0].kids.insert(1, Node::leaf(0x89, gen::Val::U(9))); }   // P (child of A) inside C
            let mut bytes = gen::encode_doc(&doc);
            let lay = gen::layout(&doc);
            let x = lay.iter().find(|t| t.id == 0x88).unwrap().clone();
            let fj = match fault {
                0 => {
                    let mut p = x.parent; let mut anc = None; while let Some(i) = p { if !lay[i].unk { anc = Some(i); break; } p = lay[i].parent; }
                    let Some(a) = anc else { continue; };
                    let room = lay[a].off + lay[a].hlen + lay[a].size - (x.off + x.hlen);
                    bytes[x.off + x.hlen - 1] = 0x80 | (room + 1) as u8;
                    json!({"class":"oversized","off":x.off,"id":idw(0x88)})
                }
                1 => { bytes[x.off] = 0x90; json!({"class":"bad_id","off":x.off,"id":idw(0x90)}) }
                _ => { let p9 = lay.iter().find(|t| t.id == 0x89 && t.depth == 3).unwrap(); json!({"class":"hier","off":p9.off,"id":idw(0x89)}) }
            };
            begin(out, n, &s, "tol", json!({"fault": fj, "root": true}));
            for bits in 0..8u8 { let mut c = ReaderCfg::strict().with_allow(bits); c.max = MaxCfg::Some(65536); run_reader::<DynTag>(out, &format!("allow:{bits}"), &bytes, &c, &[], &until_end()); }
            out.ev(json!({"ev":"end"}));
        }
    }
}

/// C17: headers declaring sizes from 0 to 2^56-2 in every vint width, at the root and inside known- /
/// unknown-size masters, under limits M (16 .. default 4 GB, none), tolerance sets and capacities; the payload is
/// mostly missing.  Each `next` event carries the peak heap growth of the call and the buffer capacity.
pub fn sizes_adversarial(out: &mut Out, rng: &mut Rng, count: usize) {
    let s = gen::s3();
    let mut n = 0usize;
    // histories rather than single headers: many small elements filling the window, then an element of exactly the limit,
    // again and again - the bound is on the whole run, whatever the position of an element inside the buffer
    for (m, small, cycles) in [(512usize, 40usize, 40usize), (1024, 100, 30), (300, 7, 60)] {
        let mut body: Vec<u8> = Vec::new();
        for c in 0..cycles {
            for k in 0..(m / (small + 2) + 1 + c % 3) { body.push(0xec); body.extend(gen::size_field(small as u64, 0)); body.extend((0..small).map(|x| (x + k) as u8)); }
            body.push(0xec); body.extend(gen::size_field(m as u64, 0)); body.extend((0..m).map(|x| (x * 3 + c) as u8));
        }
        let mut bytes = vec![0x81, 0xff]; bytes.extend(body);
        for cap in [m, 16, 2 * m] {
            let mut c = ReaderCfg::strict(); c.max = MaxCfg::Some(m); c.cap = Some(cap);
            begin(out, &mut n, &s, "single", json!({"big": true}));
            run_reader::<DynTag>(out, "ratchet", &bytes, &c, &[], &Calls::UntilEnd { extra: 1, max_calls: 20000 });
            out.ev(json!({"ev":"end"}));
        }
    }
    for i in 0..count {
        let limit: (MaxCfg, u64) = match i % 6 { 0 => (MaxCfg::Some(16), 16), 1 => (MaxCfg::Some(1024), 1024), 2 => (MaxCfg::Some(1 << 20), 1 << 20), 3 => (MaxCfg::Default, DEFAULT_MAX), 4 => (MaxCfg::None, u64::MAX), _ => (MaxCfg::Some(100_000), 100_000) };
        let m = limit.1;
        let w = rng.range(1, 8);
        let maxv = (1u64 << (7 * w)) - 2;
        let cands: Vec<u64> = [0u64, 1, 8, 9, 15, 16, 17, m.saturating_sub(1), m, m.saturating_add(1), m.saturating_mul(2), maxv, maxv - 1, 1 << 20, (1 << 23) + 5, 1 << 30, 1 << 40, (1u64 << 56) - 2, rng.next_u64() >> rng.range(8, 63)]
            .iter().copied().filter(|v| *v <= maxv).collect();
        let mut v = *rng.pick(&cands);
        // never ask the real code for more than 8 MiB that it may legitimately allocate
        let within = v <= m;
        if within && v > (8 << 20) { v = *rng.pick(&[0u64, 9, 4096, 1 << 20, (8 << 20) - 1]); if v > maxv { v = maxv.min(100); } }
        let elem_id: u64 = if i % 3 == 0 { 0xec } else { 0x88 };
        let mut elem = gen::id_bytes(elem_id); elem.extend(gen::vint_w(v, w));
        let have = match rng.below(4) { 0 => 0usize, 1 => rng.below(6), 2 => (v.min(5000)) as usize, _ => (v.min(64)) as usize };
        elem.extend(rng.bytes(have.min(v.min(1 << 20) as usize)));
        // context: root (global element only), or inside A{B{C{..}}} with each master known (generous size) or unknown
        let mut bytes = Vec::new();
        let nested = elem_id == 0x88 || rng.chance(1, 2);
        if nested {
            let mut inner = elem.clone();
            if rng.chance(1, 3) { inner.extend([0x84, 0x81, 0x01]); }   // a further element after it
            for id in [0x83u64, 0x82, 0x81] {
                let mut h = gen::id_bytes(id);
                match rng.below(3) { 0 => h.push(0xff), 1 => h.extend(gen::size_field(inner.len() as u64, 0)), _ => h.extend(gen::vint_w((inner.len() as u64).max(v.min((1 << 27) - 2)).min((1 << 28) - 2), 4)) }
                h.extend(inner); inner = h;
            }
            bytes = inner;
        } else { bytes.extend(elem); }
        let mut c = ReaderCfg::strict().with_allow(*rng.pick(&[0u8, 0, 4, 6, 7, 2]));
        c.max = limit.0.clone();
        c.cap = *rng.pick(&[None, Some(16), Some(64), Some(0)]);
        begin(out, &mut n, &s, "single", json!({"declared": w8(v), "width": w, "limit": w8(m)}));
        run_reader::<DynTag>(out, "adv", &bytes, &c, &[], &Calls::UntilEnd { extra: 0, max_calls: 40 });
        out.ev(json!({"ev":"end"}));
    }
}
