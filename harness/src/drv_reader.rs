//! Reader drivers: each produces cases made of one or more runs of the real TagIterator.
use crate::dynspec::{self, DynTag, Schema};
use crate::gen::{self, DocOpts, Node};
use crate::j::*;
use crate::reader::*;
use crate::rng::Rng;
use serde_json::json;

pub const SIGMA12: [u8; 12] = [0x80, 0x81, 0x82, 0x83, 0x84, 0x89, 0x8b, 0xec, 0xff, 0x40, 0x00, 0x90];

pub fn until_end() -> Calls { Calls::UntilEnd { extra: 1, max_calls: 400 } }

fn begin(out: &mut Out, n: &mut usize, s: &Schema, rel: &str, extra: serde_json::Value) {
    dynspec::install(s.clone());
    let mut x = json!({"rel": rel});
    if let serde_json::Value::Object(m) = extra { for (k, v) in m { x[k] = v; } }
    case_header::<DynTag>(out, *n, "reader", &s.ids(), x);
    *n += 1;
}

/// every byte string over SIGMA12 up to length `maxlen` (S3), under a few configurations
pub fn small(out: &mut Out, maxlen: usize, cfgs: &[ReaderCfg], stride: usize, seed: u64) {
    let s = gen::s3();
    let mut n = 0usize;
    let mut idx: u64 = 0;
    for len in 0..=maxlen {
        let total = 12usize.pow(len as u32);
        for k in 0..total {
            idx += 1;
            if stride > 1 && (idx.wrapping_mul(0x9E3779B97F4A7C15).wrapping_add(seed) >> 33) % (stride as u64) != 0 { continue; }
            let mut x = k; let mut inp = Vec::with_capacity(len);
            for _ in 0..len { inp.push(SIGMA12[x % 12]); x /= 12; }
            begin(out, &mut n, &s, "single", json!({}));
            for (ci, c) in cfgs.iter().enumerate() { run_reader::<DynTag>(out, &format!("cfg{ci}"), &inp, c, &[], &until_end()); }
            out.ev(json!({"ev":"end"}));
        }
    }
}

pub fn all_cfgs(s: &Schema, rng: &mut Rng) -> Vec<ReaderCfg> {
    let mut v = Vec::new();
    for bits in 0..8u8 {
        let mut c = ReaderCfg::strict().with_allow(bits);
        // mutated size fields may declare gigabytes: keep the limit small except in a few runs
        if !rng.chance(1, 16) { c.max = MaxCfg::Some(*rng.pick(&[64usize, 4096, 65536])); }
        if rng.chance(1, 3) { let ms = s.masters(); c.buffer = ms.into_iter().filter(|_| rng.chance(1, 2)).collect(); }
        if rng.chance(1, 4) { c.eof_close = false; }
        v.push(c);
    }
    v
}

pub fn mutate(rng: &mut Rng, bytes: &mut Vec<u8>) {
    if bytes.is_empty() { bytes.push(rng.next_u64() as u8); return; }
    let k = 1 + rng.below(3);
    for _ in 0..k {
        let i = rng.below(bytes.len().max(1));
        match rng.below(7) {
            0 => { if !bytes.is_empty() { bytes[i] ^= 1 << rng.below(8); } }
            1 => { if !bytes.is_empty() { bytes[i] = rng.next_u64() as u8; } }
            2 => { bytes.insert(i, rng.next_u64() as u8); }
            3 => { if !bytes.is_empty() { bytes.remove(i); } }
            4 => { if !bytes.is_empty() { bytes[i] = *rng.pick(&[0x00u8, 0xff, 0x80, 0x81, 0x01, 0x40, 0x7f]); } }
            5 => { let l = rng.below(bytes.len() + 1); bytes.truncate(l); }
            _ => { if !bytes.is_empty() { let v = bytes[i]; bytes[i] = v.wrapping_add(1); } }
        }
        if bytes.is_empty() { break; }
    }
}

/// random conformant documents (and optionally mutations of them) under all tolerance settings
pub fn docs(out: &mut Out, rng: &mut Rng, count: usize, mutated: bool, random_schema: bool) {
    let mut n = 0usize;
    for i in 0..count {
        let s = if random_schema && i % 2 == 1 { gen::rand_schema(rng, &gen::SchemaOpts { wide_ids: i % 4 == 3, globals: true, max_depth: 4 }) } else { gen::s3() };
        let o = DocOpts { max_tags: 25, unk_prob: (if i % 3 == 0 { 1 } else { 0 }, 3), widths: i % 5 == 0, noncanon: i % 7 == 0, ..Default::default() };
        let doc: Vec<Node> = gen::rand_doc(rng, &s, &o);
        let mut bytes = gen::encode_doc(&doc);
        if mutated { mutate(rng, &mut bytes); }
        if bytes.len() > 3000 { continue; }
        begin(out, &mut n, &s, "single", json!({"mutated": mutated}));
        let cfgs = if mutated { all_cfgs(&s, rng) } else { vec![ReaderCfg::strict(), { let mut c = ReaderCfg::strict(); c.buffer = s.masters().into_iter().filter(|_| rng.chance(1, 2)).collect(); c }] };
        for (ci, c) in cfgs.iter().enumerate() { run_reader::<DynTag>(out, &format!("cfg{ci}"), &bytes, c, &[], &until_end()); }
        out.ev(json!({"ev":"end"}));
    }
}

pub fn run(out: &mut Out, which: &str, seed: u64, thorough: bool) {
    let mut rng = Rng::new(seed);
    match which {
        "small" => {
            let s = gen::s3();
            let mut cfgs = vec![ReaderCfg::strict()];
            let mut c = ReaderCfg::strict(); c.buffer = vec![0x82]; cfgs.push(c);
            let _ = s;
            small(out, if thorough { 5 } else { 4 }, &cfgs, 1, seed);
        }
        "docs" => docs(out, &mut rng, if thorough { 3000 } else { 300 }, false, true),
        "mutate" => docs(out, &mut rng, if thorough { 6000 } else { 500 }, true, true),
        x => panic!("unknown reader driver {x}"),
    }
}
