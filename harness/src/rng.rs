//! Small deterministic PRNG (xorshift64*), seeded from VERIF_SEED; no external crate needed.
#[derive(Clone)]
pub struct Rng(u64);

impl Rng {
    pub fn new(seed: u64) -> Self {
        let mut s = seed ^ 0x9E37_79B9_7F4A_7C15;
        if s == 0 { s = 0x1234_5678_9ABC_DEF1; }
        let mut r = Rng(s);
        for _ in 0..8 { r.next_u64(); }
        r
    }
    pub fn next_u64(&mut self) -> u64 {
        let mut x = self.0;
        x ^= x >> 12;
        x ^= x << 25;
        x ^= x >> 27;
        self.0 = x;
        x.wrapping_mul(0x2545_F491_4F6C_DD1D)
    }
    /// uniform in 0..n (n > 0)
    pub fn below(&mut self, n: usize) -> usize { (self.next_u64() % (n as u64)) as usize }
    pub fn range(&mut self, lo: usize, hi_incl: usize) -> usize { lo + self.below(hi_incl - lo + 1) }
    pub fn chance(&mut self, num: u32, den: u32) -> bool { (self.next_u64() % den as u64) < num as u64 }
    pub fn pick<'a, T>(&mut self, xs: &'a [T]) -> &'a T { &xs[self.below(xs.len())] }
    pub fn bytes(&mut self, n: usize) -> Vec<u8> { (0..n).map(|_| self.next_u64() as u8).collect() }
    pub fn fork(&mut self) -> Rng { Rng::new(self.next_u64()) }
}
