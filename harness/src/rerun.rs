//! `rerun`: re-executes the recorded calls of a replay file (one case of a reader or writer trace) against
//! the current tree and records a fresh trace, which ./check --replay then validates.
use crate::dynspec::{self, DynTag, DynVal, Entry, Schema};
use crate::j::*;
use crate::reader::*;
use crate::writer::*;
use ebml_iterable::specs::{Master, PathPart, TagDataType};
use serde_json::{json, Value};

fn bytes(v: &Value) -> Vec<u8> { v.as_array().map(|a| a.iter().map(|x| x.as_u64().unwrap_or(0) as u8).collect()).unwrap_or_default() }
fn idv(v: &Value) -> u64 { bytes(v).iter().fold(0u64, |a, b| (a << 8) | *b as u64) }
fn schema_of(v: &Value) -> Schema {
    let mut entries = Vec::new();
    for e in v.as_array().cloned().unwrap_or_default() {
        let ty = match e["ty"].as_str().unwrap_or("") { "master" => TagDataType::Master, "uint" => TagDataType::UnsignedInt, "int" => TagDataType::Integer, "utf8" => TagDataType::Utf8, "float" => TagDataType::Float, _ => TagDataType::Binary };
        let path = e["path"].as_array().cloned().unwrap_or_default().iter().map(|p| if p["k"] == "id" { PathPart::Id(idv(&p["id"])) } else {
            let mn = p["min"].as_i64().unwrap_or(0); let mx = p["max"].as_i64().unwrap_or(-1);
            PathPart::Global((if mn == 0 { None } else { Some(mn as u64) }, if mx < 0 { None } else { Some(mx as u64) })) }).collect();
        entries.push(Entry { id: idv(&e["id"]), ty, path, name: String::new() });
    }
    Schema { entries }
}
fn cfg_of(c: &Value) -> ReaderCfg {
    let mut r = ReaderCfg::strict();
    r.allow_id = c["allowId"].as_bool().unwrap_or(false); r.allow_hier = c["allowHier"].as_bool().unwrap_or(false); r.allow_size = c["allowSize"].as_bool().unwrap_or(false);
    r.eof_close = c["eofClose"].as_bool().unwrap_or(true);
    r.buffer = c["buffered"].as_array().cloned().unwrap_or_default().iter().map(idv).collect();
    r.max = if !c["hasMax"].as_bool().unwrap_or(true) { MaxCfg::None } else { let m = idv(&c["max"]); if m == DEFAULT_MAX { MaxCfg::Default } else { MaxCfg::Some(m as usize) } };
    let cap = c["cap"].as_i64().unwrap_or(-1); r.cap = if cap < 0 { None } else { Some(cap as usize) };
    r
}
fn sched_of(s: &Value, io: &Value) -> Vec<Step> {
    let mut errs = io.as_array().cloned().unwrap_or_default().into_iter();
    s.as_array().cloned().unwrap_or_default().iter().map(|x| {
        let k = x.as_i64().unwrap_or(0);
        if k > 0 { Step::N(k as usize) } else if k == 0 { Step::Zero } else if k == -1 { Step::Pause } else {
            let t = errs.next().and_then(|v| v.as_str().map(|s| s.to_string())).unwrap_or_default();
            let parts: Vec<&str> = t.splitn(2, ':').collect();
            let kind = match parts.first().copied().unwrap_or("") { "TimedOut" => std::io::ErrorKind::TimedOut, "ConnectionReset" => std::io::ErrorKind::ConnectionReset, "PermissionDenied" => std::io::ErrorKind::PermissionDenied, _ => std::io::ErrorKind::Other };
            Step::Err(kind, parts.get(1).copied().unwrap_or("").to_string())
        }
    }).collect()
}
fn tag_of(e: &Value) -> DynTag {
    let id = idv(&e["id"]);
    let val = bytes(&e["val"]);
    let w = |b: &Vec<u8>| b.iter().fold(0u64, |a, x| (a << 8) | *x as u64);
    let kind = e["kind"].as_str().unwrap_or("");
    let v = match (kind, e["ty"].as_str().unwrap_or("")) {
        ("start", _) => DynVal::M(Master::Start), ("end", _) => DynVal::M(Master::End),
        ("full", _) => DynVal::M(Master::Full(e["kids"].as_array().cloned().unwrap_or_default().iter().map(tag_of).collect())),
        (_, "uint") => DynVal::U(w(&val)), (_, "int") => DynVal::I(w(&val) as i64), (_, "float") => DynVal::F(f64::from_bits(w(&val))),
        (_, "utf8") => DynVal::S(String::from_utf8_lossy(&val).to_string()), (_, "raw") => DynVal::Raw(val), _ => DynVal::B(val),
    };
    DynTag { id, v }
}

pub fn run(out: &mut Out, inp: &str) {
    let text = std::fs::read_to_string(inp).expect("replay file");
    let evs: Vec<Value> = text.lines().filter(|l| !l.trim().is_empty()).map(|l| serde_json::from_str(l).expect("json line")).collect();
    let mut i = 0usize;
    while i < evs.len() {
        let e = &evs[i];
        match e["ev"].as_str().unwrap_or("") {
            "case" => { if e["schema"].is_array() { dynspec::install(schema_of(&e["schema"])); } out.ev(e.clone()); i += 1; }
            "run" => {
                let tag = e["tag"].as_str().unwrap_or("").to_string();
                let mut j = i + 1; let mut calls = Vec::new();
                while j < evs.len() && !matches!(evs[j]["ev"].as_str().unwrap_or(""), "run" | "end" | "case") {
                    match evs[j]["ev"].as_str().unwrap_or("") { "next" => calls.push(Call::Next), "recover" => calls.push(Call::Recover), _ => {} }
                    j += 1;
                }
                if tag.starts_with("async") || tag.starts_with("stream") { for k in i..j { out.ev(evs[k].clone()); } }   // not re-executed: recorded events are kept
                else { run_reader::<DynTag>(out, &tag, &bytes(&e["input"]), &cfg_of(&e["cfg"]), &sched_of(&e["sched"], &e["sched_io"]), &Calls::Script(calls)); }
                i = j;
            }
            "wrun" => {
                let tag = e["tag"].as_str().unwrap_or("").to_string();
                let sink: Vec<SinkStep> = e["sink"].as_array().cloned().unwrap_or_default().iter().map(|x| match x { Value::Number(n) => SinkStep::Take(n.as_u64().unwrap_or(1) as usize), _ => SinkStep::Interrupted }).collect();
                let mut j = i + 1; let mut ops = Vec::new();
                while j < evs.len() && evs[j]["ev"] == "write" {
                    let w = &evs[j];
                    ops.push(match w["k"].as_str().unwrap_or("") {
                        "flush" => WOp::Flush, "into_inner" => WOp::IntoInner,
                        "write_raw" => WOp::WriteRaw { id: idv(&w["id"]), data: bytes(&w["val"]) },
                        "start_unknown_dep" => WOp::StartUnknownDeprecated { tag: DynTag { id: idv(&w["id"]), v: DynVal::M(Master::Start) } },
                        _ if w["dep"].as_bool().unwrap_or(false) => WOp::StartUnknownDeprecated { tag: tag_of(w) },
                        _ => WOp::Tag { tag: tag_of(w), width: w["width"].as_u64().unwrap_or(0) as usize, unknown: w["unknown"].as_bool().unwrap_or(false) },
                    });
                    j += 1;
                }
                let (dest, _) = run_writer(out, &tag, &ops, sink);
                // a recorded read-back right after the run is re-done on the new output
                if j < evs.len() && evs[j]["ev"] == "readback" && evs[j]["tag"] != "r1" { readback(out, evs[j]["tag"].as_str().unwrap_or("r"), &dest, evs[j]["allow_ids"].as_bool().unwrap_or(false)); j += 1; }
                i = j;
            }
            "readback" => { readback(out, e["tag"].as_str().unwrap_or("r"), &bytes(&e["input"]), e["allow_ids"].as_bool().unwrap_or(false)); i += 1; }
            _ => { out.ev(e.clone()); i += 1; }
        }
    }
    let _ = json!(0);
}
