//! Generators: random specifications, random specification-conformant documents (trees),
//! and an *independent* encoder of trees to EBML bytes (the reader drivers must not depend on
//! the TagWriter under test).
use crate::dynspec::{DynTag, DynVal, Entry, Schema};
use crate::rng::Rng;
use ebml_iterable::specs::{Master, PathPart, TagDataType};

#[derive(Clone, Debug, PartialEq)]
pub enum Val { M, U(u64), I(i64), F(f64), F4(f32), S(String), B(Vec<u8>) }

#[derive(Clone, Debug)]
pub struct Node {
    pub id: u64,
    pub val: Val,
    pub kids: Vec<Node>,
    /// master encoded with unknown size
    pub unk: bool,
    /// size-field width (0 = shortest non-reserved)
    pub width: usize,
    /// integer payload: extra zero/sign padding bytes (non-canonical but valid); 255 = zero-length payload for value 0
    pub pad: usize,
}
impl Node {
    pub fn leaf(id: u64, val: Val) -> Node { Node { id, val, kids: vec![], unk: false, width: 0, pad: 0 } }
    pub fn master(id: u64, kids: Vec<Node>) -> Node { Node { id, val: Val::M, kids, unk: false, width: 0, pad: 0 } }
    pub fn is_master(&self) -> bool { self.val == Val::M }
    pub fn count(&self) -> usize { 1 + self.kids.iter().map(|k| k.count()).sum::<usize>() }
    pub fn masters(&self, acc: &mut Vec<u64>) { if self.is_master() { acc.push(self.id); for k in &self.kids { k.masters(acc); } } }
}

pub fn id_bytes(id: u64) -> Vec<u8> { id.to_be_bytes().iter().copied().skip_while(|x| *x == 0).collect() }

/// vint of `v` in exactly `w` bytes (w >= needed)
pub fn vint_w(v: u64, w: usize) -> Vec<u8> {
    let mut bytes = v.to_be_bytes();
    bytes[8 - w] |= 1 << (8 - w);
    bytes[8 - w..].to_vec()
}
pub fn min_width(v: u64) -> usize { let mut w = 1; while w < 8 && v >= (1u64 << (7 * w)) { w += 1; } w }
/// size field: shortest width whose encoding is not the reserved all-ones pattern, or the requested width if larger
pub fn size_field(v: u64, width: usize) -> Vec<u8> {
    let mut w = min_width(v);
    if v == (1u64 << (7 * w)) - 1 { w += 1; }
    vint_w(v, w.max(width).min(8))
}
pub fn unknown_size(width: usize) -> Vec<u8> { let w = if width == 0 { 1 } else { width }; vint_w((1u64 << (7 * w)) - 1, w) }

pub fn payload(n: &Node) -> Vec<u8> {
    match &n.val {
        Val::M => vec![],
        Val::U(v) => {
            if n.pad == 255 && *v == 0 { return vec![]; }
            let mut p: Vec<u8> = v.to_be_bytes().iter().copied().skip_while(|x| *x == 0).collect();
            if p.is_empty() { p.push(0); }
            let pad = n.pad.min(8 - p.len());
            let mut r = vec![0u8; pad]; r.extend(p); r
        }
        Val::I(v) => {
            if n.pad == 255 && *v == 0 { return vec![]; }
            let b = v.to_be_bytes();
            let mut k = 8;
            while k > 1 { // drop redundant sign bytes
                let top = b[8 - k]; let nxt = b[8 - k + 1];
                if (top == 0 && nxt < 128) || (top == 255 && nxt >= 128) { k -= 1; } else { break; }
            }
            let k = (k + n.pad).min(8);
            b[8 - k..].to_vec()
        }
        Val::F(v) => v.to_bits().to_be_bytes().to_vec(),
        Val::F4(v) => v.to_bits().to_be_bytes().to_vec(),
        Val::S(s) => s.as_bytes().to_vec(),
        Val::B(b) => b.clone(),
    }
}

pub fn encode(n: &Node, out: &mut Vec<u8>) {
    out.extend(id_bytes(n.id));
    if n.is_master() {
        let mut body = Vec::new();
        for k in &n.kids { encode(k, &mut body); }
        if n.unk { out.extend(unknown_size(n.width)); } else { out.extend(size_field(body.len() as u64, n.width)); }
        out.extend(body);
    } else {
        let p = payload(n);
        out.extend(size_field(p.len() as u64, n.width));
        out.extend(p);
    }
}
pub fn encode_doc(doc: &[Node]) -> Vec<u8> { let mut v = Vec::new(); for n in doc { encode(n, &mut v); } v }

/// byte offsets of every tag boundary of the encoded document (start of each tag, end of doc),
/// together with whether the boundary is inside some master and the nesting depth
pub fn boundaries(doc: &[Node]) -> Vec<usize> {
    fn walk(n: &Node, base: usize, acc: &mut Vec<usize>) -> usize {
        acc.push(base);
        let mut me = Vec::new(); encode(n, &mut me);
        if n.is_master() {
            let mut body = Vec::new(); for k in &n.kids { encode(k, &mut body); }
            let hdr = me.len() - body.len();
            let mut off = base + hdr;
            for k in &n.kids { off = walk(k, off, acc); }
        }
        base + me.len()
    }
    let mut acc = Vec::new(); let mut off = 0;
    for n in doc { off = walk(n, off, &mut acc); }
    acc.push(off); acc.sort(); acc.dedup(); acc
}

/// the flat tag sequence a strict reader must produce (masters as Start/End), as DynTags
pub fn flatten(doc: &[Node], acc: &mut Vec<DynTag>) {
    for n in doc {
        match &n.val {
            Val::M => { acc.push(DynTag { id: n.id, v: DynVal::M(Master::Start) }); flatten(&n.kids, acc); acc.push(DynTag { id: n.id, v: DynVal::M(Master::End) }); }
            _ => acc.push(to_tag(n)),
        }
    }
}
pub fn to_tag(n: &Node) -> DynTag {
    DynTag { id: n.id, v: match &n.val {
        Val::M => DynVal::M(Master::Full(n.kids.iter().map(to_tag).collect())),
        Val::U(v) => DynVal::U(*v), Val::I(v) => DynVal::I(*v), Val::F(v) => DynVal::F(*v), Val::F4(v) => DynVal::F(*v as f64),
        Val::S(s) => DynVal::S(s.clone()), Val::B(b) => DynVal::B(b.clone()),
    } }
}

// ---------------------------------------------------------------- path semantics (independent)
pub fn matches(p: &[PathPart], c: &[u64]) -> bool {
    match p.first() {
        None => c.is_empty(),
        Some(PathPart::Id(i)) => !c.is_empty() && c[0] == *i && matches(&p[1..], &c[1..]),
        Some(PathPart::Global((a, z))) => {
            let lo = a.unwrap_or(0) as usize; let hi = z.map(|m| m as usize).unwrap_or(c.len()).min(c.len());
            (lo..=hi).any(|n| n <= c.len() && matches(&p[1..], &c[n..]))
        }
    }
}
pub fn allowed_children<'a>(s: &'a Schema, chain: &[u64]) -> Vec<&'a Entry> { s.entries.iter().filter(|e| matches(&e.path, chain)).collect() }

// ---------------------------------------------------------------- values
pub fn lattice_u64(rng: &mut Rng) -> u64 {
    match rng.below(6) {
        0 => rng.below(4) as u64,
        1 => { let e = *rng.pick(&[7u32, 8, 14, 15, 16, 21, 24, 28, 31, 32, 35, 42, 48, 49, 56, 63]); (1u64 << e).wrapping_add(rng.range(0, 4) as u64).wrapping_sub(2) }
        2 => u64::MAX - rng.below(3) as u64,
        3 => rng.next_u64() >> rng.range(0, 63),
        4 => rng.below(256) as u64,
        _ => rng.next_u64(),
    }
}
pub fn lattice_f64(rng: &mut Rng) -> f64 {
    f64::from_bits(match rng.below(11) {
        0 => 0, 1 => 1u64 << 63, 2 => 1, 3 => 0x7ff0_0000_0000_0000, 4 => 0xfff0_0000_0000_0000,
        5 => 0x7ff8_0000_0000_0001, 6 => 0x000f_ffff_ffff_ffff,
        // around what a 4-byte float can hold: mantissas of at most 23 (or 24) bits with exponents inside, on the edge of and
        // far outside the single-precision range (a writer that narrows such a value must not change it)
        7 | 8 => {
            let sign = (rng.below(2) as u64) << 63;
            let exp = *rng.pick(&[0u64, 1, 1023 - 300, 1023 - 150, 1023 - 149, 1023 - 127, 1023 - 126, 1023, 1023 + 127, 1023 + 128, 1023 + 200, 2046]);
            let mant = match rng.below(4) { 0 => 0, 1 => (rng.next_u64() >> 41) << 29, 2 => ((rng.next_u64() >> 41) << 29) | (1 << 28), _ => 1u64 << 51 };
            sign | (exp << 52) | mant
        }
        // exactly representable in single precision
        9 => (f32::from_bits(rng.next_u64() as u32) as f64).to_bits(),
        _ => rng.next_u64(),
    })
}
pub fn rand_utf8(rng: &mut Rng, chars: usize) -> String {
    (0..chars).map(|_| match rng.below(5) { 0 => 'a', 1 => 'é', 2 => '€', 3 => '😀', _ => (b'a' + rng.below(26) as u8) as char }).collect()
}
pub fn payload_len(rng: &mut Rng, big: bool) -> usize {
    let small = [0usize, 0, 1, 1, 2, 3, 5, 7, 8, 9, 16, 31];
    let edge = [126usize, 127, 128, 129, 255, 256, 300];
    let large = [16382usize, 16383, 16384, 16385, 20000];
    match rng.below(20) { 0..=13 => *rng.pick(&small), 14..=18 => *rng.pick(&edge), _ => if big { *rng.pick(&large) } else { *rng.pick(&edge) } }
}
pub fn rand_val(rng: &mut Rng, ty: TagDataType, big: bool, noncanon: bool) -> (Val, usize) {
    match ty {
        TagDataType::Master => (Val::M, 0),
        TagDataType::UnsignedInt => { let v = lattice_u64(rng); (Val::U(v), if noncanon && rng.chance(1, 4) { if v == 0 && rng.chance(1, 2) { 255 } else { rng.range(1, 3) } } else { 0 }) }
        TagDataType::Integer => {
            let v = if rng.chance(1, 4) {
                // payloads whose leading byte sits on the sign boundary (0x80, 0x7f, 0xff 0x7f.., 0x00 0x80..), every length 1..8
                let k = rng.range(1, 8);
                let mut bytes = rng.bytes(k);
                bytes[0] = *rng.pick(&[0x80u8, 0x80, 0x7f, 0xff, 0x00, 0x81]);
                if k > 1 && rng.chance(1, 3) { bytes[1] = *rng.pick(&[0x80u8, 0x7f, 0x00, 0xff]); }
                let mut x: i64 = if bytes[0] & 0x80 != 0 { -1 } else { 0 };
                for b in &bytes { x = (x << 8) | *b as i64; }
                x
            } else { let v = lattice_u64(rng) as i64; if rng.chance(1, 2) { v.wrapping_neg() } else { v } }; (Val::I(v), if noncanon && rng.chance(1, 4) { if v == 0 && rng.chance(1, 2) { 255 } else { rng.range(1, 3) } } else { 0 }) }
        TagDataType::Float => if noncanon && rng.chance(1, 3) { (Val::F4(f32::from_bits(match rng.below(6) { 0 => 0, 1 => 0x8000_0000, 2 => 1, 3 => 0x7f80_0000, 4 => 0x3f80_0000, _ => { let x = rng.next_u64() as u32; if (x >> 23) & 0xff == 0xff { x & 0xff80_0000 } else { x } } })), 0) } else { let f = lattice_f64(rng); (Val::F(if f.is_nan() { f64::NAN } else { f }), 0) },
        TagDataType::Utf8 => {
            if rng.chance(1, 3) {
                // exact *byte* lengths from the boundary lattice (0, 126-128, 16382-16384, ...), ASCII with a few multi-byte characters
                let n = payload_len(rng, big);
                let mut st = String::with_capacity(n);
                while st.len() < n { let left = n - st.len(); let c = match rng.below(8) { 0 if left >= 2 => 'é', 1 if left >= 3 => '€', 2 if left >= 4 => '😀', _ => (b'a' + rng.below(26) as u8) as char }; st.push(c); }
                (Val::S(st), 0)
            } else {
                let n = payload_len(rng, false).min(40); let mut st = rand_utf8(rng, n);
                // NUL characters are characters: at the end (a padded string), at the start, in the middle
                match rng.below(8) { 0 => st.push('\0'), 1 => { st.push('\0'); st.push('\0'); } 2 => st.insert(0, '\0'), 3 => { let k = st.chars().count() / 2; let at = st.char_indices().nth(k).map(|x| x.0).unwrap_or(0); st.insert(at, '\0'); } _ => {} }
                (Val::S(st), 0)
            }
        }
        TagDataType::Binary => { let n = payload_len(rng, big); (Val::B(rng.bytes(n)), 0) }
    }
}

// ---------------------------------------------------------------- schemas
pub fn rand_id(rng: &mut Rng, used: &mut Vec<u64>, wide: bool) -> u64 {
    loop {
        let len = if wide { *rng.pick(&[1usize, 1, 2, 2, 3, 4, 4, 5, 6, 7, 8]) } else { *rng.pick(&[1usize, 1, 1, 1, 2, 2, 3, 4]) };
        let bits = 7 * len;
        let mut v = rng.next_u64() & ((1u64 << bits) - 1);
        if v == 0 || v == (1u64 << bits) - 1 { v = 1 + rng.below(100) as u64; }
        let id = (1u64 << bits) | v;
        // keep clear of the ids the derive macro reserves and of ids already used
        if id == 0xbf || id == 0xec || used.contains(&id) { continue; }
        used.push(id);
        return id;
    }
}
pub struct SchemaOpts { pub wide_ids: bool, pub globals: bool, pub max_depth: usize }
pub fn rand_schema(rng: &mut Rng, o: &SchemaOpts) -> Schema {
    let mut used = Vec::new();
    let mut entries: Vec<Entry> = Vec::new();
    // forest of masters
    let nm = rng.range(2, 6);
    let mut masters: Vec<(u64, Vec<PathPart>)> = Vec::new();
    for k in 0..nm {
        let id = rand_id(rng, &mut used, o.wide_ids);
        let path = if k == 0 || rng.chance(1, 4) { vec![] } else {
            let (pid, ppath) = rng.pick(&masters).clone();
            if ppath.len() + 1 > o.max_depth { vec![] } else { let mut p = ppath; p.push(PathPart::Id(pid)); p }
        };
        masters.push((id, path.clone()));
        entries.push(Entry { id, ty: TagDataType::Master, path, name: format!("M{k}") });
    }
    // a master reached through an intermediate placeholder, with a child below it
    if o.globals && rng.chance(1, 2) {
        let (pid, ppath) = rng.pick(&masters).clone();
        let id = rand_id(rng, &mut used, o.wide_ids);
        let (a, z) = *rng.pick(&[(Some(1u64), Some(1u64)), (None, None), (Some(0), Some(2)), (Some(1), None), (None, Some(1)), (Some(2), Some(3))]);
        let mut p = ppath; p.push(PathPart::Id(pid)); p.push(PathPart::Global((a, z)));
        entries.push(Entry { id, ty: TagDataType::Master, path: p.clone(), name: "MG".into() });
        masters.push((id, p));
    }
    let types = [TagDataType::UnsignedInt, TagDataType::Integer, TagDataType::Float, TagDataType::Utf8, TagDataType::Binary];
    let nl = rng.range(3, 8);
    for k in 0..nl {
        let id = rand_id(rng, &mut used, o.wide_ids);
        let path = if rng.chance(1, 10) { vec![] } else { let (pid, ppath) = rng.pick(&masters).clone(); let mut p = ppath; p.push(PathPart::Id(pid)); p };
        entries.push(Entry { id, ty: *rng.pick(&types), path, name: format!("L{k}") });
    }
    if o.globals {
        // trailing placeholders (global elements) and an intermediate placeholder before a leaf
        for (k, (a, z)) in [(None, None), (Some(1u64), None), (Some(0u64), Some(2u64)), (Some(2), Some(3)), (Some(1), Some(1))].iter().enumerate() {
            if rng.chance(1, 2) {
                let id = rand_id(rng, &mut used, o.wide_ids);
                let mut p = if rng.chance(1, 2) { vec![] } else { let (pid, ppath) = rng.pick(&masters).clone(); let mut p = ppath; p.push(PathPart::Id(pid)); p };
                if matches!(p.last(), Some(PathPart::Global(_))) { p.pop(); }
                p.push(PathPart::Global((*a, *z)));
                let ty = if k == 0 && rng.chance(1, 3) { TagDataType::Master } else { *rng.pick(&types) };
                entries.push(Entry { id, ty, path: p, name: format!("G{k}") });
            }
        }
    }
    Schema { entries }
}

// ---------------------------------------------------------------- documents
pub struct DocOpts { pub max_depth: usize, pub max_tags: usize, pub big: bool, pub noncanon: bool, pub unk_prob: (u32, u32), pub widths: bool,
    /// most size fields 8 bytes wide: with ids of 5-8 bytes the headers are 13-16 bytes long (the longest the format allows)
    pub long_headers: bool }
impl Default for DocOpts { fn default() -> Self { DocOpts { max_depth: 6, max_tags: 40, big: false, noncanon: false, unk_prob: (0, 1), widths: false, long_headers: false } } }

fn gen_node(rng: &mut Rng, s: &Schema, e: &Entry, chain: &mut Vec<u64>, budget: &mut usize, o: &DocOpts) -> Node {
    *budget = budget.saturating_sub(1);
    if e.ty != TagDataType::Master {
        let (val, pad) = rand_val(rng, e.ty, o.big, o.noncanon);
        return Node { id: e.id, val, kids: vec![], unk: false, width: if o.long_headers && rng.chance(2, 3) { 8 } else if o.widths && rng.chance(1, 4) { rng.range(1, 8) } else { 0 }, pad };
    }
    chain.push(e.id);
    let mut kids = Vec::new();
    if chain.len() < o.max_depth {
        let cands = allowed_children(s, chain);
        if !cands.is_empty() {
            let n = rng.below(5);
            for _ in 0..n { if *budget == 0 { break; } let c = *rng.pick(&cands); kids.push(gen_node(rng, s, c, chain, budget, o)); }
        }
    }
    chain.pop();
    Node { id: e.id, val: Val::M, kids, unk: rng.chance(o.unk_prob.0, o.unk_prob.1), width: if o.long_headers && rng.chance(2, 3) { 8 } else if o.widths && rng.chance(1, 4) { rng.range(1, 8) } else { 0 }, pad: 0 }
}
/// a specification-conformant document: a sequence of root-level elements
pub fn rand_doc(rng: &mut Rng, s: &Schema, o: &DocOpts) -> Vec<Node> {
    let roots = allowed_children(s, &[]);
    let mut doc = Vec::new();
    let mut budget = rng.range(1, o.max_tags);
    let mut chain = Vec::new();
    let nroots = rng.range(1, 3);
    for _ in 0..nroots {
        if budget == 0 || roots.is_empty() { break; }
        // prefer root masters
        let ms: Vec<&&Entry> = roots.iter().filter(|e| e.ty == TagDataType::Master).collect();
        let e = if !ms.is_empty() && rng.chance(4, 5) { **rng.pick(&ms) } else { *rng.pick(&roots) };
        doc.push(gen_node(rng, s, e, &mut chain, &mut budget, o));
    }
    doc
}
pub fn s3() -> Schema {
    Schema::parse("A:master=0x81, A/B:master=0x82, A/B/C:master=0x83, A/B/C/U:uint=0x84, A/B/C/I:int=0x85, A/B/C/F:float=0x86, A/B/C/S:utf8=0x87, A/B/C/X:bin=0x88, A/P:uint=0x89, A/B/Q:uint=0x8a, R2:master=0x8b, (-)/G:bin=0xec")
}

// ---------------------------------------------------------------- unknown-size encodings (C07)
/// e directly ends the unknown-size master m: root element, same declared path, or the id of an ancestor of m
pub fn ends_directly(s: &Schema, m: u64, e: u64) -> bool {
    let (Some(me), Some(ee)) = (s.get(m), s.get(e)) else { return false; };
    ee.path.is_empty() || ee.path == me.path || me.path.iter().any(|p| matches!(p, PathPart::Id(i) if *i == e))
}
pub struct FlatNode { pub id: u64, pub parent: Option<usize>, pub size: usize, pub is_master: bool, pub path: Vec<usize> }
pub fn flat_index(doc: &[Node]) -> Vec<FlatNode> {
    fn walk(n: &Node, parent: Option<usize>, path: Vec<usize>, acc: &mut Vec<FlatNode>) {
        let me = acc.len();
        acc.push(FlatNode { id: n.id, parent, size: n.count(), is_master: n.is_master(), path: path.clone() });
        for (i, k) in n.kids.iter().enumerate() { let mut p = path.clone(); p.push(i); walk(k, Some(me), p, acc); }
    }
    let mut acc = Vec::new();
    for (i, n) in doc.iter().enumerate() { walk(n, None, vec![i], &mut acc); }
    acc
}
pub fn node_mut<'a>(doc: &'a mut [Node], path: &[usize]) -> &'a mut Node {
    let mut n = &mut doc[path[0]];
    for &i in &path[1..] { n = &mut n.kids[i]; }
    n
}
/// Sets `unk` on the masters selected by `want` (indexed like flat_index), keeping only those for
/// which EBML determines the end unambiguously: end of document, exhaustion of an enclosing
/// known-size master, or a following element that ends exactly the right unknown-size masters.
/// Returns the number of masters finally marked.
pub fn assign_unknown(doc: &mut Vec<Node>, s: &Schema, want: &[bool]) -> usize {
    let flat = flat_index(doc);
    let mut unk: Vec<bool> = (0..flat.len()).map(|i| flat[i].is_master && want[i]).collect();
    let ancestors = |i: usize| -> Vec<usize> { let mut v = Vec::new(); let mut p = flat[i].parent; while let Some(x) = p { v.push(x); p = flat[x].parent; } v };
    loop {
        let mut changed = false;
        for i in 0..flat.len() {
            if !unk[i] { continue; }
            // nothing inside M may itself look like an element that ends M (recursive / global masters)
            if (i + 1..i + flat[i].size).any(|d| ends_directly(s, flat[i].id, flat[d].id)) { unk[i] = false; changed = true; continue; }
            let nxt = i + flat[i].size;
            if nxt >= flat.len() { continue; } // end of document closes everything
            let anc_m = ancestors(i);
            let anc_n = ancestors(nxt);
            // ancestors of M that end together with M (not ancestors of the next element), innermost first
            let ending: Vec<usize> = anc_m.iter().copied().filter(|a| !anc_n.contains(a)).collect();
            if ending.iter().any(|a| !unk[*a]) { continue; } // a known-size master is exhausted first
            // all of M and `ending` are unknown: the next element must end exactly them
            let mut run: Vec<usize> = vec![i]; run.extend(ending.iter().copied());
            let outer: Vec<usize> = anc_m.iter().copied().filter(|a| anc_n.contains(a)).collect();
            let mut run_ext = run.clone();
            for a in &outer { if unk[*a] { run_ext.push(*a); } else { break; } }
            // lowest (outermost) directly-ended master of the top run must be the outermost of `run`
            let hit = run_ext.iter().rposition(|x| ends_directly(s, flat[*x].id, flat[nxt].id));
            let ok = matches!(hit, Some(h) if h == run.len() - 1);
            if !ok { unk[i] = false; changed = true; }
        }
        if !changed { break; }
    }
    for i in 0..flat.len() { node_mut(doc, &flat[i].path).unk = unk[i]; }
    unk.iter().filter(|x| **x).count()
}
pub fn clear_unknown(doc: &mut Vec<Node>) { fn w(n: &mut Node) { n.unk = false; for k in n.kids.iter_mut() { w(k); } } for n in doc.iter_mut() { w(n); } }

// ---------------------------------------------------------------- layout of an encoded document
#[derive(Clone, Debug)]
pub struct Lay { pub id: u64, pub off: usize, pub hlen: usize, pub size: usize, pub is_master: bool, pub unk: bool, pub depth: usize, pub parent: Option<usize> }
/// offsets of every tag in document order (same indexing as flat_index)
pub fn layout(doc: &[Node]) -> Vec<Lay> {
    fn walk(n: &Node, off: usize, depth: usize, parent: Option<usize>, acc: &mut Vec<Lay>) -> usize {
        let mut me = Vec::new(); encode(n, &mut me);
        let idl = id_bytes(n.id).len();
        let me_idx = acc.len();
        if n.is_master() {
            let mut body = Vec::new(); for k in &n.kids { encode(k, &mut body); }
            let hlen = me.len() - body.len();
            acc.push(Lay { id: n.id, off, hlen, size: body.len(), is_master: true, unk: n.unk, depth, parent });
            let mut o = off + hlen;
            for k in &n.kids { o = walk(k, o, depth + 1, Some(me_idx), acc); }
        } else {
            let p = payload(n);
            acc.push(Lay { id: n.id, off, hlen: me.len() - p.len(), size: p.len(), is_master: false, unk: false, depth, parent });
            let _ = idl;
        }
        off + me.len()
    }
    let mut acc = Vec::new(); let mut off = 0;
    for n in doc { off = walk(n, off, 0, None, &mut acc); }
    acc
}
