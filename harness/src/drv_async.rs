//! Driver `async` (C20): the non-blocking iterator (TagIteratorAsync::next and into_stream) on a
//! single-threaded executor over a scripted AsyncRead, next to the blocking iterator over the same bytes.
use crate::dynspec::{self, tag_json, DynTag, Schema};
use crate::gen::{self, DocOpts};
use crate::j::*;
use crate::reader::{case_header, err_json, run_reader, state_json, Calls, ReaderCfg};
use crate::rng::Rng;
use ebml_iterable::nonblocking::TagIteratorAsync;
use ebml_iterable::specs::{EbmlSpecification, Master};
use futures::io::AsyncRead;
use futures::StreamExt;
use serde_json::{json, Value};
use std::panic::{catch_unwind, AssertUnwindSafe};
use std::pin::Pin;
use std::task::{Context, Poll};

/// AsyncRead delivering min(step, buf) bytes per poll, always Ready; after the script, everything that fits
pub struct ScriptedAsyncRead { data: Vec<u8>, pos: usize, script: Vec<usize>, i: usize, pub reads: Vec<usize> }
impl AsyncRead for ScriptedAsyncRead {
    fn poll_read(mut self: Pin<&mut Self>, _cx: &mut Context<'_>, buf: &mut [u8]) -> Poll<std::io::Result<usize>> {
        let step = if self.i < self.script.len() { let s = self.script[self.i]; self.i += 1; s } else { usize::MAX };
        let n = step.min(buf.len()).min(self.data.len() - self.pos);
        let p = self.pos;
        buf[..n].copy_from_slice(&self.data[p..p + n]);
        self.pos += n;
        self.reads.push(n);
        Poll::Ready(Ok(n))
    }
}

fn run_async(out: &mut Out, tag: &str, input: &[u8], buffer: &[u64], script: &[usize], stream: bool, multi: bool) {
    let mut cfg = ReaderCfg::strict(); cfg.buffer = buffer.to_vec();
    out.ev(json!({"ev":"run","tag":tag,"input":b(input),"cfg":cfg.json(),"sched":script.iter().map(|x| json!(*x.min(&1_000_000) as i64)).collect::<Vec<_>>(),"multi":multi,"stream":stream}));
    let src = ScriptedAsyncRead { data: input.to_vec(), pos: 0, script: script.to_vec(), i: 0, reads: vec![] };
    let to_buffer: Vec<DynTag> = buffer.iter().filter_map(|id| DynTag::get_master_tag(*id, Master::Start)).collect();
    let it = TagIteratorAsync::new(src, &to_buffer);
    let limit = 3 * input.len() + 50;
    let evs: Vec<Value> = if stream {
        // the stream adapter: collect (bounded) what it yields; a stream that never ends is cut at `limit`
        let r = catch_unwind(AssertUnwindSafe(|| futures::executor::block_on(async {
            let mut v = Vec::new();
            let mut s = Box::pin(it.into_stream());
            let mut ended = false;
            while v.len() < limit {
                match s.next().await {
                    Some(Ok(t)) => { let mut e = tag_json(&t); e["res"] = json!("item"); e["off"] = json!(-1); v.push(e); }
                    Some(Err(e)) => { v.push(err_json(&e)); break; }
                    None => { v.push(json!({"res":"none"})); ended = true; break; }
                }
            }
            let _ = ended; v
        })));
        r.unwrap_or_else(|_| vec![json!({"res":"panic","msg":""})])
    } else {
        let mut it = it;
        let r = catch_unwind(AssertUnwindSafe(|| futures::executor::block_on(async {
            let mut v = Vec::new();
            let mut nones = 0;
            while v.len() < limit {
                match it.next().await {
                    Some(Ok(t)) => { let mut e = tag_json(&t); e["res"] = json!("item"); e["off"] = nsat(it.last_emitted_tag_offset()); e["st"] = state_json(it.verif_inner()); v.push(e); }
                    Some(Err(e)) => { v.push(err_json(&e)); break; }
                    None => { v.push(json!({"res":"none"})); nones += 1; if nones >= 2 { break; } }
                }
            }
            v
        })));
        r.unwrap_or_else(|_| vec![json!({"res":"panic","msg":""})])
    };
    for mut e in evs { e["ev"] = json!("next"); e["peak"] = json!(0); out.ev(e); }
}

pub fn run(out: &mut Out, seed: u64, thorough: bool) {
    let mut rng = Rng::new(seed);
    let count = if thorough { 1500 } else { 200 };
    let mut n = 0usize;
    for i in 0..count {
        let s: Schema = if i % 2 == 1 { gen::rand_schema(&mut rng, &gen::SchemaOpts { wide_ids: false, globals: i % 3 != 0, max_depth: 4 }) } else { gen::s3() };
        dynspec::install(s.clone());
        let big = i % 25 == 24;
        let long = i % 7 == 6 && !big;
        let s: Schema = if long { let s2 = gen::rand_schema(&mut rng, &gen::SchemaOpts { wide_ids: true, globals: true, max_depth: 4 }); dynspec::install(s2.clone()); s2 } else { s };
        let doc = gen::rand_doc(&mut rng, &s, &DocOpts { max_tags: if big { 60 } else if i % 5 == 3 { 20 } else { 12 }, big, unk_prob: (if i % 3 == 0 { 1 } else { 0 }, 3), long_headers: long, ..Default::default() });
        let mut bytes = gen::encode_doc(&doc);
        if big { // exceed the 64 KiB transfer buffer: pad with a root-level global element if there is one
            if let Some(g) = s.entries.iter().find(|e| e.path.len() == 1 && matches!(e.path[0], ebml_iterable::specs::PathPart::Global((None, None))) && e.ty == ebml_iterable::specs::TagDataType::Binary) {
                let mut pad = gen::id_bytes(g.id); pad.extend(gen::size_field(70000, 0)); pad.extend(vec![7u8; 70000]); pad.extend(bytes); bytes = pad;
            }
        }
        match i % 6 { 1 => crate::drv_reader::mutate(&mut rng, &mut bytes), 2 => { let l = rng.below(bytes.len() + 1); bytes.truncate(l); } _ => {} }
        // a header that runs past the end of its (possibly buffered) parent: the first byte of some child becomes the start of a
        // long id (0x01: 8 bytes, 0x10: 4, 0x20: 3) or its size field becomes an 8-byte one
        let corrupt_child = i % 5 == 3 && !big;
        let mut must_buffer: Option<u64> = None;
        if corrupt_child {
            let lay = gen::layout(&doc);
            // preferred: the last child of a known-size master that is followed by at least 9 more bytes (that master gets buffered)
            let mut cands: Vec<(usize, u64)> = Vec::new();
            for (m, l) in lay.iter().enumerate() {
                if !l.is_master || l.unk { continue; }
                let end = l.off + l.hlen + l.size;
                if let Some(last) = lay.iter().enumerate().filter(|(_, k)| k.parent == Some(m)).map(|(_, k)| k.off).max() {
                    if bytes.len() >= end + 9 { cands.push((last, l.id)); }
                }
            }
            let kids: Vec<usize> = lay.iter().filter(|l| l.depth > 0).map(|l| l.off).collect();
            let at = if !cands.is_empty() && rng.chance(3, 4) { let (a, id) = *rng.pick(&cands); must_buffer = Some(id); Some(a) } else if !kids.is_empty() { Some(*rng.pick(&kids)) } else { None };
            if let Some(at) = at {
                if at < bytes.len() { if rng.chance(2, 3) { bytes[at] = *rng.pick(&[0x01u8, 0x10, 0x20, 0x02]); } else if at + 1 < bytes.len() { bytes[at + 1] = 0x01; } }
            }
        }
        if bytes.len() > 200_000 { continue; }
        let mut ms = Vec::new(); for d in &doc { d.masters(&mut ms); } ms.sort(); ms.dedup();
        let buffer: Vec<u64> = if i % 4 == 3 || i % 7 == 5 || corrupt_child { ms.into_iter().filter(|_| rng.chance(1, 2)).collect() } else { vec![] };
        let mut buffer = buffer; if let Some(id) = must_buffer { if !buffer.contains(&id) { buffer.push(id); } }
        case_header::<DynTag>(out, n, "reader", &s.ids(), json!({"rel":"sched"})); n += 1;
        let mut cfg = ReaderCfg::strict(); cfg.buffer = buffer.clone();
        run_reader::<DynTag>(out, "blocking", &bytes, &cfg, &[], &Calls::UntilEnd { extra: 1, max_calls: 3 * bytes.len() + 50 });
        let single = bytes.len() <= 65536;
        run_async(out, "async:all", &bytes, &buffer, &[], false, !single);
        run_async(out, "stream:all", &bytes, &buffer, &[], true, !single);
        if bytes.len() <= 10 && !bytes.is_empty() {
            for mask in 0..(1u32 << (bytes.len() - 1)) {
                let mut sc = Vec::new(); let mut run_len = 1;
                for bb in 0..bytes.len() - 1 { if (mask >> bb) & 1 == 1 { sc.push(run_len); run_len = 1; } else { run_len += 1; } }
                sc.push(run_len);
                let multi = sc.len() > 1;
                if multi || mask == 0 { run_async(out, &format!("async:{mask:b}"), &bytes, &buffer, &sc, false, multi); }
            }
        } else {
            for k in 0..3 { let mut sc = Vec::new(); let mut left = bytes.len(); while left > 0 { let mx = [1usize, 3, 16, 200, 70000][rng.below(5)]; let x = 1 + rng.below(mx); sc.push(x); left = left.saturating_sub(x); }
                run_async(out, &format!("async:r{k}"), &bytes, &buffer, &sc, k == 2, sc.len() > 1 || !single); }
            if bytes.len() <= 160 {
                // every position as the end of the first read (a tag straddling two reads, a read ending at a tag boundary), the rest at once
                for cut in 1..bytes.len() { run_async(out, &format!("async:cut{cut}"), &bytes, &buffer, &[cut], false, true); }
                // one byte per read
                run_async(out, "async:bytewise", &bytes, &buffer, &vec![1usize; bytes.len()], false, true);
                run_async(out, "stream:bytewise", &bytes, &buffer, &vec![1usize; bytes.len()], true, true);
            }
        }
        out.ev(json!({"ev":"end"}));
    }
}
