//! Reader infrastructure: scripted `Read` source, configuration, and `run_reader`, which
//! drives one real TagIterator through a sequence of public calls and records one event per
//! call at its return (error path included; panics are data).
use crate::dynspec::{schema_json, tag_json};
use crate::j::*;
use ebml_iterable::error::{CorruptedFileError, TagIteratorError};
use ebml_iterable::iterator::AllowableErrors;
use ebml_iterable::specs::{EbmlSpecification, EbmlTag, Master};
use ebml_iterable::TagIterator;
use serde_json::{json, Value};
use std::cell::RefCell;
use std::io::Read;
use std::panic::{catch_unwind, AssertUnwindSafe};
use std::rc::Rc;

pub const DEFAULT_MAX: u64 = 4_000_000_000;
/// at most this many bytes of an error's partial data are written to the trace (its length is always recorded)
pub const PARTIAL_CAP: usize = 4096;

#[derive(Clone, Debug)]
pub enum MaxCfg { Default, None, Some(usize) }

#[derive(Clone, Debug)]
pub struct ReaderCfg {
    pub allow_id: bool,
    pub allow_hier: bool,
    pub allow_size: bool,
    pub max: MaxCfg,
    pub buffer: Vec<u64>,
    pub eof_close: bool,
    pub cap: Option<usize>,
}
impl ReaderCfg {
    pub fn strict() -> Self {
        ReaderCfg { allow_id: false, allow_hier: false, allow_size: false, max: MaxCfg::Default, buffer: vec![], eof_close: true, cap: None }
    }
    pub fn with_allow(mut self, bits: u8) -> Self {
        self.allow_id = bits & 1 != 0; self.allow_hier = bits & 2 != 0; self.allow_size = bits & 4 != 0; self
    }
    pub fn json(&self) -> Value {
        let (has_max, max) = match self.max {
            MaxCfg::Default => (true, w8(DEFAULT_MAX)),
            MaxCfg::None => (false, json!([])),
            MaxCfg::Some(m) => (true, w8(m as u64)),
        };
        json!({"allowId":self.allow_id,"allowHier":self.allow_hier,"allowSize":self.allow_size,"hasMax":has_max,"max":max,
               "buffered":self.buffer.iter().map(|i| idw(*i)).collect::<Vec<_>>(),"eofClose":self.eof_close,
               "cap": match self.cap { Some(c) => json!(c as i64), None => json!(-1) }})
    }
}

#[derive(Clone, Debug)]
pub enum Step {
    /// deliver at most n bytes
    N(usize),
    /// answer Ok(0) although data may remain (temporary end-of-file)
    Zero,
    /// no data for now: every read answers Ok(0) until the current public call has returned
    Pause,
    /// fail with this error kind and message
    Err(std::io::ErrorKind, String),
}
/// numbers only (TLC cannot compare numbers with strings): n > 0 bytes available, 0 one Ok(0), -1 pause, -2 error
pub fn sched_json(s: &[Step]) -> Value {
    Value::Array(s.iter().map(|x| match x {
        Step::N(n) => json!((*n).min(1 << 30) as i64),
        Step::Zero => json!(0),
        Step::Pause => json!(-1),
        Step::Err(_, _) => json!(-2),
    }).collect())
}
/// the error steps of a schedule, in order: "Kind:message"
pub fn sched_io_json(s: &[Step]) -> Value {
    Value::Array(s.iter().filter_map(|x| if let Step::Err(k, m) = x { Some(json!(format!("{:?}:{}", k, m))) } else { None }).collect())
}

/// A `Read` whose every answer is scripted; after the script it delivers whatever fits.
pub struct ScriptedRead {
    data: Rc<Vec<u8>>,
    pos: usize,
    script: Vec<Step>,
    i: usize,
    rem: Option<usize>,
    paused: bool,
    /// (bytes delivered | -1 for an error, bytes wanted, bytes left, index of the failing script step); kept
    /// allocation-free inside calls (capacity reserved up front) so that it does not disturb the heap measurement
    pub log: Rc<RefCell<Vec<(i64, usize, usize, usize)>>>,
}
impl ScriptedRead {
    pub fn new(data: Rc<Vec<u8>>, script: Vec<Step>, log: Rc<RefCell<Vec<(i64, usize, usize, usize)>>>) -> Self {
        log.borrow_mut().reserve(16384);
        ScriptedRead { data, pos: 0, script, i: 0, rem: None, paused: false, log }
    }
}
impl ScriptedRead {
    pub fn delivered_all(&self) -> bool { self.pos >= self.data.len() }
    /// the public call has returned: a pending pause is over
    pub fn end_of_call(&mut self) { self.paused = false; }
}
impl Read for ScriptedRead {
    fn read(&mut self, buf: &mut [u8]) -> std::io::Result<usize> {
        // a step N(n) means "n bytes are available now": if the caller's buffer takes fewer, the rest of the
        // step is served by the following reads, so that a later Zero step falls exactly where the script says
        let step = if self.paused { Step::Zero } else if let Some(r) = self.rem.take() { Step::N(r) }
                   else if self.i < self.script.len() { let s = self.script[self.i].clone(); self.i += 1; s } else { Step::N(usize::MAX) };
        let left = self.data.len() - self.pos;
        let step = if let Step::Pause = step { self.paused = true; Step::Zero } else { step };
        match step {
            Step::Pause => unreachable!(),
            Step::Err(k, m) => {
                self.log.borrow_mut().push((-1, buf.len(), left, self.i - 1));
                Err(std::io::Error::new(k, m))
            }
            Step::Zero => {
                self.log.borrow_mut().push((0, buf.len(), left, 0));
                Ok(0)
            }
            Step::N(n) => {
                let k = n.min(buf.len()).min(left);
                if k < n && k < left && n != usize::MAX { self.rem = Some(n - k); }
                buf[..k].copy_from_slice(&self.data[self.pos..self.pos + k]);
                self.pos += k;
                self.log.borrow_mut().push((k as i64, buf.len(), left - k, 0));
                Ok(k)
            }
        }
    }
}

#[derive(Clone, Copy, Debug, PartialEq)]
pub enum Call { Next, Recover }

pub enum Calls {
    /// next() until None or an error; then `extra` further next() calls
    UntilEnd { extra: usize, max_calls: usize },
    Script(Vec<Call>),
    /// next(); on an error call try_recover() and continue (at most max_calls calls)
    Recovering { extra: usize, max_calls: usize },
}

pub fn err_json(e: &TagIteratorError) -> Value {
    let mut v = json!({"res":"err","ekind":"","pos":-1,"has_id":false,"id":[],"has_size":false,"size":[],
                       "has_partial":false,"partial":[],"partial_len":0,"has_parent":false,"parent":[],"io":""});
    let set_id = |v: &mut Value, id: u64| { v["has_id"] = json!(true); v["id"] = idw(id); };
    match e {
        TagIteratorError::CorruptedFileData(c) => match c {
            CorruptedFileError::InvalidTagId { position, tag_id } => { v["ekind"] = json!("bad_id"); v["pos"] = nsat(*position); set_id(&mut v, *tag_id); }
            CorruptedFileError::InvalidTagData { position, tag_id } => { v["ekind"] = json!("bad_data"); v["pos"] = nsat(*position); set_id(&mut v, *tag_id); }
            CorruptedFileError::HierarchyError { found_tag_id, current_parent_id } => {
                v["ekind"] = json!("hier"); set_id(&mut v, *found_tag_id);
                if let Some(p) = current_parent_id { v["has_parent"] = json!(true); v["parent"] = idw(*p); }
            }
            CorruptedFileError::OversizedChildElement { position, tag_id, size } => {
                v["ekind"] = json!("oversized"); v["pos"] = nsat(*position); set_id(&mut v, *tag_id);
                v["has_size"] = json!(true); v["size"] = w8(*size as u64);
            }
            CorruptedFileError::InvalidTagSize { position, tag_id, size } => {
                v["ekind"] = json!("too_big"); v["pos"] = nsat(*position); set_id(&mut v, *tag_id);
                v["has_size"] = json!(true); v["size"] = w8(*size as u64);
            }
        },
        TagIteratorError::UnexpectedEOF { tag_start, tag_id, tag_size, partial_data } => {
            v["ekind"] = json!("eof"); v["pos"] = nsat(*tag_start);
            if let Some(i) = tag_id { set_id(&mut v, *i); }
            if let Some(s) = tag_size { v["has_size"] = json!(true); v["size"] = w8(*s as u64); }
            if let Some(p) = partial_data { v["has_partial"] = json!(true); v["partial"] = b(&p[..p.len().min(PARTIAL_CAP)]); v["partial_len"] = nsat(p.len()); }
        }
        TagIteratorError::CorruptedTagData { tag_id, problem: _ } => { v["ekind"] = json!("tag_data"); set_id(&mut v, *tag_id); }
        TagIteratorError::ReadError { source } => { v["ekind"] = json!("io"); v["io"] = json!(format!("{:?}:{}", source.kind(), source)); }
    }
    v
}

pub fn state_json<R: Read, T: EbmlSpecification<T> + EbmlTag<T> + Clone>(it: &TagIterator<R, T>) -> Value {
    let s = it.verif_state();
    json!({"off": match s.buffer_offset { Some(o) => nsat(o), None => json!(-1) },
           "pos": nsat(s.buffer_offset.unwrap_or(0) + s.internal_buffer_position),
           "ipos": nsat(s.internal_buffer_position),
           "len": nsat(s.buffered_byte_length), "cap": nsat(s.capacity), "q": nsat(s.queue_len), "doc": s.has_determined_doc_path,
           "last": nsat(it.last_emitted_tag_offset()),
           "stack": s.stack.iter().map(|(id, size, ts, ds)| json!({"id":idw(*id),"unk":size.is_none(),"size":nsat(size.unwrap_or(0)),
                                                                 "start":nsat(*ts),"dstart":nsat(*ds)})).collect::<Vec<_>>()})
}

/// Runs one real iterator over `input` and appends `run`, `read`, `next`, `recover` events.
/// Returns the JSON results of the calls (for drivers that build further runs from them).
pub fn run_reader<T: EbmlSpecification<T> + EbmlTag<T> + Clone>(
    out: &mut Out, tag: &str, input: &[u8], cfg: &ReaderCfg, sched: &[Step], calls: &Calls,
) -> Vec<Value> {
    out.ev(json!({"ev":"run","tag":tag,"input":b(input),"cfg":cfg.json(),"sched":sched_json(sched),"sched_io":sched_io_json(sched)}));
    let log: Rc<RefCell<Vec<(i64, usize, usize, usize)>>> = Rc::new(RefCell::new(Vec::new()));
    let src = ScriptedRead::new(Rc::new(input.to_vec()), sched.to_vec(), log.clone());
    let to_buffer: Vec<T> = cfg.buffer.iter().filter_map(|id| T::get_master_tag(*id, Master::Start)).collect();
    let mut it: TagIterator<ScriptedRead, T> = match cfg.cap {
        Some(c) => TagIterator::with_capacity(src, &to_buffer, c),
        None => TagIterator::new(src, &to_buffer),
    };
    let mut allow = vec![];
    if cfg.allow_id { allow.push(AllowableErrors::InvalidTagIds); }
    if cfg.allow_hier { allow.push(AllowableErrors::HierarchyProblems); }
    if cfg.allow_size { allow.push(AllowableErrors::OversizedTags); }
    // every setting is made twice, first to something else: a configuration call replaces what the previous one said
    // (all of it happens before the first item is read)
    it.allow_errors(&[AllowableErrors::InvalidTagIds, AllowableErrors::HierarchyProblems, AllowableErrors::OversizedTags]);
    it.allow_errors(&allow);
    match cfg.max {
        MaxCfg::Default => {},
        MaxCfg::None => { it.set_max_allowable_tag_size(Some(3)); it.set_max_allowable_tag_size(None) },
        MaxCfg::Some(m) => { it.set_max_allowable_tag_size(None); it.set_max_allowable_tag_size(Some(m)) },
    }
    it.emit_master_end_when_eof(cfg.eof_close);
    it.emit_master_end_when_eof(!cfg.eof_close);
    it.emit_master_end_when_eof(cfg.eof_close);

    let mut results = Vec::new();
    let (script, extra, max_calls, recovering): (Option<&Vec<Call>>, usize, usize, bool) = match calls {
        Calls::UntilEnd { extra, max_calls } => (None, *extra, *max_calls, false),
        Calls::Recovering { extra, max_calls } => (None, *extra, *max_calls, true),
        Calls::Script(s) => (Some(s), 0, s.len(), false),
    };
    let mut ncalls = 0usize;
    let mut after_end = 0usize;
    let mut ended = false;
    let mut next_call = Call::Next;
    loop {
        if ncalls >= max_calls { break; }
        let call = match script { Some(s) => s[ncalls], None => next_call };
        ncalls += 1;
        crate::watchdog::call_begins();
        crate::alloc::reset_peak();
        let before = crate::alloc::current();
        // the peak is taken immediately after the call returns: converting the result to JSON allocates too
        enum Raw<T> { N(std::thread::Result<Option<Result<T, TagIteratorError>>>), R(std::thread::Result<Result<(), TagIteratorError>>) }
        let raw = match call {
            Call::Next => Raw::N(catch_unwind(AssertUnwindSafe(|| it.next()))),
            Call::Recover => Raw::R(catch_unwind(AssertUnwindSafe(|| it.try_recover()))),
        };
        let peak_now = crate::alloc::peak().saturating_sub(before);
        crate::watchdog::call_ends();
        let mut ev = match raw {
            Raw::N(r) => {
                match r {
                    Ok(Some(Ok(t))) => { let mut v = tag_json(&t); v["res"] = json!("item"); v["off"] = nsat(it.last_emitted_tag_offset()); v }
                    Ok(Some(Err(e))) => err_json(&e),
                    Ok(None) => json!({"res":"none"}),
                    Err(p) => json!({"res":"panic","msg":panic_msg(&p)}),
                }
            }
            Raw::R(r) => {
                match r {
                    Ok(Ok(())) => json!({"res":"ok"}),
                    Ok(Err(e)) => { let mut v = err_json(&e); v["res"] = json!(if v["ekind"] == "eof" { "eof" } else if v["ekind"] == "io" { "io" } else { "other" }); v }
                    Err(p) => json!({"res":"panic","msg":panic_msg(&p)}),
                }
            }
        };
        ev["ev"] = json!(if call == Call::Next { "next" } else { "recover" });
        ev["peak"] = nsat(peak_now);
        if ev["res"] == "none" && !it.get_ref().delivered_all() { ev["pause"] = json!(true); }
        it.get_mut().end_of_call();
        let panicked = ev["res"] == "panic";
        if !panicked { ev["st"] = state_json(&it); }
        for (nb, want, left, si) in log.borrow_mut().drain(..) {
            let io = if nb < 0 { match &sched[si] { Step::Err(k, m) => format!("{:?}:{}", k, m), _ => String::new() } } else { String::new() };
            out.ev(json!({"ev":"read","n":nb,"want":nsat(want),"left":nsat(left),"io":io}));
        }
        out.ev(ev.clone());
        let res = ev["res"].as_str().unwrap().to_string();
        results.push(ev);
        if panicked { break; }
        if script.is_none() {
            let is_err = call == Call::Next && res == "err";
            if recovering && is_err && !ended {
                next_call = Call::Recover;
                continue;
            }
            if call == Call::Recover {
                next_call = Call::Next;
                if res != "ok" { ended = true; }
                if ended { after_end += 1; if after_end > extra { break; } }
                continue;
            }
            // a None while the source still holds undelivered bytes is a pause (temporary end-of-file), not the end
            if (res == "none" && it.get_ref().delivered_all()) || is_err { ended = true; }
            if ended { after_end += 1; if after_end > extra { break; } }
        }
    }
    results
}

pub fn panic_msg(p: &Box<dyn std::any::Any + Send>) -> String {
    let s = if let Some(s) = p.downcast_ref::<&str>() { s.to_string() } else if let Some(s) = p.downcast_ref::<String>() { s.clone() } else { "?".to_string() };
    s.chars().take(120).collect()
}

pub fn case_header<T: EbmlSpecification<T> + EbmlTag<T> + Clone>(out: &mut Out, n: usize, comp: &str, ids: &[u64], extra: Value) {
    let mut v = json!({"ev":"case","n":n as i64,"comp":comp,"schema":schema_json::<T>(ids)});
    if let Value::Object(m) = extra { for (k, x) in m { v[k] = x; } }
    out.ev(v);
}
