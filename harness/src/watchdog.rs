//! Watchdog for C05 ("no hang"): a call of the code under test that does not return within LIMIT seconds ends the
//! process with exit code 3; the case being executed is the last one in the (flushed) trace.
use std::sync::atomic::{AtomicU64, Ordering::SeqCst};
use std::time::{SystemTime, UNIX_EPOCH};

pub const LIMIT_MS: u64 = 20_000;
static STARTED: AtomicU64 = AtomicU64::new(0);
fn now() -> u64 { SystemTime::now().duration_since(UNIX_EPOCH).map(|d| d.as_millis() as u64).unwrap_or(0) }
pub fn call_begins() { STARTED.store(now(), SeqCst); }
pub fn call_ends() { STARTED.store(0, SeqCst); }
pub fn start() {
    std::thread::spawn(|| loop {
        std::thread::sleep(std::time::Duration::from_millis(250));
        let s = STARTED.load(SeqCst);
        if s != 0 && now().saturating_sub(s) > LIMIT_MS {
            eprintln!("WATCHDOG: a call of the code under test did not return within {} ms", LIMIT_MS);
            std::process::exit(3);
        }
    });
}
