//! verif-harness: drives the real ebml-iterable code (path dependency on /repo, feature
//! verif-hooks) and records ndjson traces that TLC validates against the TLA+ specification.
//! The harness never decides a verdict.
mod alloc;
mod codec;
mod drv_async;
mod drv_paths;
mod drv_reader;
mod drv_writer;
mod dynspec;
mod gen;
mod j;
mod reader;
mod rerun;
mod rng;
mod watchdog;
mod writer;

#[global_allocator]
static GLOBAL: alloc::Counting = alloc::Counting;

fn arg(args: &[String], name: &str) -> Option<String> {
    args.iter().position(|a| a == name).and_then(|i| args.get(i + 1)).cloned()
}

fn main() {
    let args: Vec<String> = std::env::args().collect();
    if args.len() < 2 { eprintln!("usage: verif-harness <driver> --out FILE [--seed N] [--tier quick|thorough]"); std::process::exit(2); }
    let driver = args[1].as_str();
    let seed: u64 = arg(&args, "--seed").and_then(|s| s.parse().ok()).unwrap_or(1);
    let thorough = arg(&args, "--tier").map(|t| t == "thorough").unwrap_or(false);
    let outp = arg(&args, "--out").unwrap_or_else(|| { eprintln!("--out required"); std::process::exit(2) });
    // panics of the code under test are data, not noise
    std::panic::set_hook(Box::new(|info| {
        // ... but a panic of the harness itself must be seen
        if let Some(l) = info.location() { if !l.file().starts_with("/repo") && !l.file().contains("/rustc/") { eprintln!("HARNESS PANIC: {}", info); } }
    }));
    watchdog::start();
    let mut out = j::Out::create(&outp);
    match driver {
        "codec" => codec::run(&mut out, seed, thorough),
        "paths" => drv_paths::run(&mut out, seed, thorough),
        "async" => drv_async::run(&mut out, seed, thorough),
        "paths_exhaustive" => drv_paths::exhaustive(&mut out, seed, if thorough { 1 } else { 8 }),
        d if d.starts_with("writer:") => drv_writer::run(&mut out, &d[7..], seed, thorough),
        "rerun" => rerun::run(&mut out, &arg(&args, "--in").expect("--in FILE")),
        "reader:replay" => drv_reader::replay(&mut out, &arg(&args, "--in").expect("--in FILE")),
        d if d.starts_with("reader:") => drv_reader::run(&mut out, &d[7..], seed, thorough),
        x => { eprintln!("unknown driver {x}"); std::process::exit(2); }
    }
    out.flush();
    eprintln!("{} events written to {}", out.lines, outp);
}
