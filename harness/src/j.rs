//! JSON helpers. Every number written is < 2^31 (TLC's Json module silently truncates beyond
//! that); wide values (ids, u64/i64/f64 values, declared sizes) are big-endian byte arrays.
use serde_json::{json, Value};
use std::io::Write;

pub fn b(bytes: &[u8]) -> Value { Value::Array(bytes.iter().map(|x| json!(*x)).collect()) }
pub fn w8(v: u64) -> Value { b(&v.to_be_bytes()) }
pub fn i8w(v: i64) -> Value { b(&v.to_be_bytes()) }
pub fn f8w(v: f64) -> Value { b(&v.to_bits().to_be_bytes()) }
/// id (or any u64) without leading zero bytes; 0 is the empty word
pub fn idw(v: u64) -> Value { b(&strip(v)) }
pub fn strip(v: u64) -> Vec<u8> { v.to_be_bytes().iter().copied().skip_while(|x| *x == 0).collect() }
/// an offset / length: must stay below 2^30
pub fn n(v: usize) -> Value {
    assert!(v < (1 << 30), "number too large for TLC: {}", v);
    json!(v)
}
/// a usize that may be huge: saturate at 2^30 (HUGE in Bytes.tla)
pub fn nsat(v: usize) -> Value { json!(std::cmp::min(v, 1usize << 30)) }

pub struct Out { w: std::io::BufWriter<std::fs::File>, pub lines: usize }
impl Out {
    pub fn create(path: &str) -> Out {
        Out { w: std::io::BufWriter::new(std::fs::File::create(path).expect("create trace file")), lines: 0 }
    }
    pub fn ev(&mut self, v: Value) {
        serde_json::to_writer(&mut self.w, &v).unwrap();
        self.w.write_all(b"\n").unwrap();
        self.lines += 1;
        // a crash (abort) of the code under test must leave the case that caused it on disk
        if v["ev"] == "case" || v["ev"] == "run" { self.w.flush().unwrap(); }
    }
    pub fn flush(&mut self) { self.w.flush().unwrap(); }
}
