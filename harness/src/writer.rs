//! Writer infrastructure: scripted `Write` sink (short writes, Interrupted), call descriptions,
//! and `run_writer`, which drives one real TagWriter through a sequence of public calls and
//! records one event per call at its return, with what the destination received.
use crate::dynspec::{tag_json, DynTag, DynVal};
use crate::j::*;
use ebml_iterable::error::TagWriterError;
use ebml_iterable::specs::Master;
use ebml_iterable::{TagWriter, WriteOptions};
use serde_json::{json, Value};
use std::cell::RefCell;
use std::io::Write;
use std::panic::{catch_unwind, AssertUnwindSafe};
use std::rc::Rc;

#[derive(Clone, Debug)]
pub enum SinkStep { Take(usize), Interrupted }

/// A `Write` whose every answer is scripted (accept k >= 1 bytes, or Interrupted); afterwards it takes everything.
pub struct ScriptedWrite { pub data: Rc<RefCell<Vec<u8>>>, script: Vec<SinkStep>, i: usize, pub calls: Rc<RefCell<usize>> }
impl ScriptedWrite {
    pub fn new(script: Vec<SinkStep>) -> Self { ScriptedWrite { data: Rc::new(RefCell::new(Vec::new())), script, i: 0, calls: Rc::new(RefCell::new(0)) } }
}
impl Write for ScriptedWrite {
    fn write(&mut self, buf: &[u8]) -> std::io::Result<usize> {
        *self.calls.borrow_mut() += 1;
        let step = if self.i < self.script.len() { let s = self.script[self.i].clone(); self.i += 1; s } else { SinkStep::Take(usize::MAX) };
        match step {
            SinkStep::Interrupted => Err(std::io::Error::new(std::io::ErrorKind::Interrupted, "interrupted")),
            SinkStep::Take(k) => { let n = k.max(1).min(buf.len()); self.data.borrow_mut().extend_from_slice(&buf[..n]); Ok(n) }
        }
    }
    fn flush(&mut self) -> std::io::Result<()> { Ok(()) }
}

#[derive(Clone, Debug)]
pub enum WOp {
    /// write / write_advanced of any tag variant (element, Start, End, Full, RawTag)
    Tag { tag: DynTag, width: usize, unknown: bool },
    WriteRaw { id: u64, data: Vec<u8> },
    StartUnknownDeprecated { tag: DynTag },
    Flush,
    IntoInner,
}
pub fn start(id: u64) -> DynTag { DynTag { id, v: DynVal::M(Master::Start) } }
pub fn end(id: u64) -> DynTag { DynTag { id, v: DynVal::M(Master::End) } }
pub fn t(tag: DynTag) -> WOp { WOp::Tag { tag, width: 0, unknown: false } }

fn res_of(r: Result<(), TagWriterError>) -> (String, Value) {
    match r {
        Ok(()) => ("ok".into(), json!([])),
        Err(TagWriterError::UnexpectedTag { tag_id, .. }) => ("unexpected_tag".into(), idw(tag_id)),
        Err(TagWriterError::TagIdError(id)) => ("id".into(), idw(id)),
        Err(TagWriterError::TagSizeError(_)) => ("size".into(), json!([])),
        Err(TagWriterError::UnexpectedClosingTag { tag_id, .. }) => ("closing".into(), idw(tag_id)),
        Err(TagWriterError::WriteError { .. }) => ("io".into(), json!([])),
    }
}

pub fn op_json(op: &WOp) -> Value {
    match op {
        WOp::Tag { tag, width, unknown } => {
            let mut v = tag_json(tag);
            let k = match v["kind"].as_str().unwrap() { "raw" => "rawtag", x => x }.to_string();
            v["k"] = json!(k); v["width"] = json!(*width as i64); v["unknown"] = json!(*unknown); v
        }
        WOp::WriteRaw { id, data } => json!({"k":"write_raw","kind":"raw","id":b(&id.to_be_bytes()),"ty":"raw","val":b(data),"kids":[],"width":0,"unknown":false}),
        WOp::StartUnknownDeprecated { tag } => {
            // the deprecated call is the option-based call: for a Start it keeps its own name (C09 compares the two), for
            // any other variant it is recorded as that variant with the unknown-size option ("dep" marks the entry point)
            let mut v = tag_json(tag);
            let k = match v["kind"].as_str().unwrap() { "start" => "start_unknown_dep", "raw" => "rawtag", x => x }.to_string();
            v["k"] = json!(k); v["width"] = json!(0); v["unknown"] = json!(true); v["dep"] = json!(true); v
        }
        WOp::Flush => json!({"k":"flush","kind":"","id":[],"ty":"","val":[],"kids":[],"width":0,"unknown":false}),
        WOp::IntoInner => json!({"k":"into_inner","kind":"","id":[],"ty":"","val":[],"kids":[],"width":0,"unknown":false}),
    }
}

/// Runs one real TagWriter through `ops`; appends `wrun` and `write` events; returns what the destination holds.
#[allow(deprecated)]
pub fn run_writer(out: &mut Out, tag: &str, ops: &[WOp], sink: Vec<SinkStep>) -> (Vec<u8>, Vec<String>) {
    out.ev(json!({"ev":"wrun","tag":tag,"sink":sink.iter().map(|s| match s { SinkStep::Take(k) => json!(*k.min(&1000000) as i64), SinkStep::Interrupted => json!("int") }).collect::<Vec<_>>()}));
    let sw = ScriptedWrite::new(sink);
    let data = sw.data.clone();
    let mut w = Some(TagWriter::new(sw));
    let mut results = Vec::new();
    let mut seen = 0usize;
    for op in ops {
        let mut ev = op_json(op);
        ev["ev"] = json!("write");
        let r = catch_unwind(AssertUnwindSafe(|| {
            match op {
                WOp::Tag { tag, width, unknown } => {
                    let wr = w.as_mut().unwrap();
                    if *unknown { wr.write_advanced(tag, WriteOptions::is_unknown_sized_element()) }
                    else if *width > 0 { wr.write_advanced(tag, WriteOptions::set_size_byte_count(*width)) }
                    else { wr.write(tag) }
                }
                WOp::WriteRaw { id, data } => w.as_mut().unwrap().write_raw(*id, data),
                WOp::StartUnknownDeprecated { tag } => w.as_mut().unwrap().write_unknown_size(tag),
                WOp::Flush => w.as_mut().unwrap().flush(),
                WOp::IntoInner => w.take().unwrap().into_inner().map(|_| ()),
            }
        }));
        let (res, err_id) = match r { Ok(x) => res_of(x), Err(_) => ("panic".to_string(), json!([])) };
        let d = data.borrow();
        ev["res"] = json!(res); ev["err_id"] = err_id;
        ev["dest_len"] = n(d.len());
        ev["dest_tail"] = b(&d[seen.min(d.len())..]);
        seen = d.len();
        if let Some(wr) = w.as_ref() {
            let (open, wbuf) = wr.verif_state();
            ev["st"] = json!({"open": open.iter().map(|(id, st, wd)| json!({"id":idw(*id),"known":st.is_some(),"start":n(st.unwrap_or(0)),"width":*wd as i64})).collect::<Vec<_>>(), "wbuf": n(wbuf)});
        } else if res == "ok" { ev["st"] = json!({"open":[],"wbuf":0}); }   // (a failed into_inner() has consumed the writer: no state to look at)
        drop(d);
        results.push(res.clone());
        out.ev(ev);
        if res == "panic" || w.is_none() { break; }
    }
    let d = data.borrow().clone();
    (d, results)
}

/// strict read-back of bytes with the real iterator, recorded as one event
pub fn readback(out: &mut Out, tag: &str, bytes: &[u8], allow_ids: bool) -> (Vec<DynTag>, bool) {
    use crate::reader::err_json;
    use ebml_iterable::iterator::AllowableErrors;
    use ebml_iterable::TagIterator;
    let mut it: TagIterator<_, DynTag> = TagIterator::new(bytes, &[]);
    if allow_ids { it.allow_errors(&[AllowableErrors::InvalidTagIds]); }
    let mut items = Vec::new();
    let mut tags: Vec<DynTag> = Vec::new();
    let mut last = json!({"res":"none"});
    let r = catch_unwind(AssertUnwindSafe(|| {
        for _ in 0..100000 {
            match it.next() {
                Some(Ok(tg)) => { let mut v = tag_json(&tg); v["res"] = json!("item"); v["off"] = nsat(it.last_emitted_tag_offset()); items.push(v); tags.push(tg); }
                Some(Err(e)) => { last = err_json(&e); break; }
                None => break,
            }
        }
    }));
    if r.is_err() { last = json!({"res":"panic"}); }
    let clean = last["res"] == "none";
    out.ev(json!({"ev":"readback","tag":tag,"input":b(bytes),"allow_ids":allow_ids,"items":items,"last":last}));
    (tags, clean)
}
