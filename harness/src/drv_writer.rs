//! Writer drivers (C01, C02, C09, C10, C19): cases made of runs of the real TagWriter, with
//! strict read-backs of what the destination received.
use crate::dynspec::{self, schema_json, tag_json, DynTag, DynVal, Schema};
use crate::gen::{self, DocOpts, Node, Val};
use crate::j::*;
use crate::rng::Rng;
use crate::writer::*;
use ebml_iterable::specs::{Master, TagDataType};
use serde_json::{json, Value};

fn begin(out: &mut Out, n: &mut usize, s: &Schema, rel: &str, extra: Value) {
    dynspec::install(s.clone());
    let mut v = json!({"ev":"case","n":*n as i64,"comp":"writer","rel":rel,"schema":schema_json::<DynTag>(&s.ids())});
    if let Value::Object(m) = extra { for (k, x) in m { v[k] = x; } }
    out.ev(v);
    *n += 1;
}
fn pick_schema(rng: &mut Rng, i: usize) -> Schema {
    let s = if i % 2 == 1 { gen::rand_schema(rng, &gen::SchemaOpts { wide_ids: i % 4 == 3, globals: i % 3 != 0, max_depth: 4 }) } else { gen::s3() };
    dynspec::install(s.clone());
    s
}

/// how a tree is presented to the writer: which masters as one Full item (by flat index)
pub fn ops_of(doc: &[Node], full: &dyn Fn(&[usize]) -> bool, deprecated_unknown: bool) -> Vec<WOp> {
    fn walk(n: &Node, path: &mut Vec<usize>, full: &dyn Fn(&[usize]) -> bool, dep: bool, ops: &mut Vec<WOp>) {
        if !n.is_master() { ops.push(WOp::Tag { tag: gen::to_tag(n), width: n.width, unknown: false }); return; }
        if full(path) && !n.unk { ops.push(WOp::Tag { tag: gen::to_tag(n), width: n.width, unknown: false }); return; }
        if n.unk { if dep { ops.push(WOp::StartUnknownDeprecated { tag: start(n.id) }); } else { ops.push(WOp::Tag { tag: start(n.id), width: 0, unknown: true }); } }
        else { ops.push(WOp::Tag { tag: start(n.id), width: n.width, unknown: false }); }
        for (i, k) in n.kids.iter().enumerate() { path.push(i); walk(k, path, full, dep, ops); path.pop(); }
        ops.push(t(end(n.id)));
    }
    let mut ops = Vec::new();
    for (i, n) in doc.iter().enumerate() { let mut p = vec![i]; walk(n, &mut p, full, deprecated_unknown, &mut ops); }
    ops
}
/// the same Full item with (some of) its child masters given as Start ... End runs of children instead of nested Full items
fn with_runs(tag: &DynTag, rng: &mut Rng) -> DynTag {
    fn kids_of(kids: &[DynTag], rng: &mut Rng, out: &mut Vec<DynTag>) {
        for k in kids {
            match &k.v {
                DynVal::M(Master::Full(c)) if rng.chance(2, 3) => { out.push(start(k.id)); kids_of(c, rng, out); out.push(end(k.id)); }
                DynVal::M(Master::Full(c)) => { let mut v = Vec::new(); kids_of(c, rng, &mut v); out.push(DynTag { id: k.id, v: DynVal::M(Master::Full(v)) }); }
                _ => out.push(k.clone()),
            }
        }
    }
    match &tag.v { DynVal::M(Master::Full(c)) => { let mut v = Vec::new(); kids_of(c, rng, &mut v); DynTag { id: tag.id, v: DynVal::M(Master::Full(v)) } } _ => tag.clone() }
}
/// the same calls with size options on (some) End calls - the unknown-size option directly or through the deprecated call,
/// or a width: options say how a tag is started, an End takes none of them
fn optioned_ends(ops: &[WOp], rng: &mut Rng) -> Vec<WOp> {
    ops.iter().map(|o| match o {
        WOp::Tag { tag, .. } if matches!(tag.v, DynVal::M(Master::End)) => match rng.below(4) {
            0 => WOp::Tag { tag: tag.clone(), width: 0, unknown: true },
            1 => WOp::StartUnknownDeprecated { tag: tag.clone() },
            2 => WOp::Tag { tag: tag.clone(), width: *rng.pick(&[1usize, 2, 8]), unknown: false },
            _ => o.clone(),
        },
        x => x.clone() }).collect()
}
fn runs_ops(ops: &[WOp], rng: &mut Rng) -> Vec<WOp> {
    ops.iter().map(|o| match o { WOp::Tag { tag, width, unknown } => WOp::Tag { tag: with_runs(tag, rng), width: *width, unknown: *unknown }, x => x.clone() }).collect()
}
/// inside a Full item neither unknown size nor explicit widths can be expressed: normalise a subtree
fn plain(n: &mut Node) { n.unk = false; n.width = 0; for k in n.kids.iter_mut() { plain(k); } }

/// explicit widths that can hold what they must (elements: payload length; masters: generous)
fn fit_widths(rng: &mut Rng, n: &mut Node) {
    if n.is_master() {
        n.width = if rng.chance(1, 4) { *rng.pick(&[4usize, 5, 8]) } else { 0 };
        for k in n.kids.iter_mut() { fit_widths(rng, k); }
    } else {
        let len = gen::payload(&Node { pad: 0, ..n.clone() }).len() as u64;
        let need = { let mut w = gen::min_width(len); if len == (1u64 << (7 * w)) - 1 { w += 1; } w };
        n.width = if rng.chance(1, 3) { rng.range(need, 8) } else { 0 };
        n.pad = 0;
        if let Val::F4(f) = n.val { n.val = Val::F(f as f64); }
    }
}
fn expect_json(doc: &[Node]) -> Value {
    let mut flat = Vec::new(); gen::flatten(doc, &mut flat);
    Value::Array(flat.iter().map(|tg| tag_json(tg)).collect())
}
fn rand_sink(rng: &mut Rng) -> Vec<SinkStep> {
    match rng.below(4) {
        0 => vec![],
        1 => (0..400).map(|_| SinkStep::Take(1)).collect(),
        2 => (0..200).map(|_| if rng.chance(1, 5) { SinkStep::Interrupted } else { SinkStep::Take(1 + rng.below(7)) }).collect(),
        _ => (0..100).map(|_| SinkStep::Take(1 + rng.below(40))).collect(),
    }
}

/// systematic boundary family for C01: every string / binary payload length around the size-field boundaries,
/// under the default and every explicit width that can hold it, at the root, inside a Start/End master and inside a Full
fn rt_boundaries(out: &mut Out, n: &mut usize, big: bool) {
    let s = gen::s3();
    for &len in &[0usize, 1, 126, 127, 128, 129, 16382, 16383, 16384, 16385] {
        if len > 1000 && !big { continue; }
        for (leaf_id, is_str) in [(0x87u64, true), (0x88, false), (0xec, false)] {
            let need = { let l = len as u64; let mut w = gen::min_width(l); if l == (1u64 << (7 * w)) - 1 { w += 1; } w };
            for width in std::iter::once(0usize).chain(need..=8) {
                if len > 1000 && width != 0 && width != need && width != 8 { continue; }
                let val = if is_str { Val::S("x".repeat(len)) } else { Val::B((0..len).map(|i| (i * 7 + 1) as u8).collect()) };
                let mut leaf = Node::leaf(leaf_id, val); leaf.width = width;
                for shape in 0..3 {
                    if leaf_id == 0xec && shape == 0 { /* the global element may stand at the root */ } else if leaf_id != 0xec && shape == 0 { continue; }
                    let inner = if leaf_id == 0xec { vec![leaf.clone()] } else { vec![Node::master(0x83, vec![leaf.clone()])] };
                    let doc: Vec<Node> = match shape { 0 => vec![leaf.clone()], _ => vec![Node::master(0x81, vec![Node::master(0x82, inner)])] };
                    let none = |_: &[usize]| false; let all = |p: &[usize]| p.len() >= 2;
                    let mut d2 = doc.clone();
                    if shape == 2 { for d in d2.iter_mut() { fn strip(n: &mut Node, depth: usize) { if depth >= 1 { n.width = 0; } for k in n.kids.iter_mut() { strip(k, depth + 1); } } strip(d, 0); } }
                    let mut ops = if shape == 2 { ops_of(&d2, &all, false) } else { ops_of(&doc, &none, false) };
                    ops.push(WOp::Flush);
                    begin(out, n, &s, "rt", json!({"expect": expect_json(if shape == 2 { &d2 } else { &doc }), "raws": false, "boundary": len as i64}));
                    let (dest, _) = run_writer(out, "w", &ops, vec![]);
                    readback(out, "r", &dest, false);
                    out.ev(json!({"ev":"end"}));
                }
            }
        }
    }
}

/// documents of S3 in which a known-size master at depth `level` (0 = A, 1 = B, 2 = C) has a body of exactly `target` bytes and is
/// directly followed by the global element G - the one neighbour that shows whether the master's size field still says
/// "known size" (a size field of all ones would make G part of the master)
fn body_boundary_doc(level: usize, target: usize) -> Option<Vec<Node>> {
    let bin = |len: usize| Node::leaf(0x88, Val::B((0..len).map(|i| (i * 5 + 3) as u8).collect()));
    let g = || Node::leaf(0xec, Val::B(vec![7]));
    let field = |l: usize| { let l = l as u64; let mut w = gen::min_width(l); if l == (1u64 << (7 * w)) - 1 { w += 1; } w };
    // innermost: C{X(p)} with 1 + field(p) + p = body of C
    let x_for = |body: usize| -> Option<usize> { (0..=body).rev().find(|p| 1 + field(*p) + *p == body) };
    match level {
        2 => { let p = x_for(target)?; Some(vec![Node::master(0x81, vec![Node::master(0x82, vec![Node::master(0x83, vec![bin(p)]), g()])])]) }
        1 => { // B{C{X(p)}}: body of B = 1 + field(cbody) + cbody
            let cbody = (0..=target).rev().find(|c| 1 + field(*c) + *c == target)?; let p = x_for(cbody)?;
            Some(vec![Node::master(0x81, vec![Node::master(0x82, vec![Node::master(0x83, vec![bin(p)])]), g()])]) }
        _ => { let bbody = (0..=target).rev().find(|c| 1 + field(*c) + *c == target)?; let cbody = (0..=bbody).rev().find(|c| 1 + field(*c) + *c == bbody)?; let p = x_for(cbody)?;
            Some(vec![Node::master(0x81, vec![Node::master(0x82, vec![Node::master(0x83, vec![bin(p)])])]), g()]) }
    }
}
fn rt_master_bodies(out: &mut Out, n: &mut usize, big: bool) {
    let s = gen::s3();
    for &target in &[126usize, 127, 128, 16382, 16383, 16384] {
        if target > 1000 && !big { continue; }
        for level in 0..3 {
            let doc = match body_boundary_doc(level, target) { Some(d) => d, None => continue };
            for shape in 0..2 {
                let none = |_: &[usize]| false; let all = |p: &[usize]| p.len() >= 1 + (level.min(1));
                let mut ops = if shape == 1 { ops_of(&doc, &all, false) } else { ops_of(&doc, &none, false) };
                ops.push(WOp::Flush);
                begin(out, n, &s, "rt", json!({"expect": expect_json(&doc), "raws": false, "boundary": target as i64, "master_body": true}));
                let (dest, _) = run_writer(out, "w", &ops, vec![]);
                readback(out, "r", &dest, false);
                out.ev(json!({"ev":"end"}));
            }
        }
    }
}

/// C01: write a conformant tree under a random presentation and options, read it back strictly
pub fn rt(out: &mut Out, rng: &mut Rng, count: usize, big: bool, big_boundaries: bool) {
    let mut n = 0usize;
    dynspec::install(gen::s3());
    rt_boundaries(out, &mut n, big_boundaries);
    rt_master_bodies(out, &mut n, big_boundaries);
    for i in 0..count {
        let s = pick_schema(rng, i);
        let o = DocOpts { max_tags: 24, big: big && i % 10 == 0, ..Default::default() };
        let mut doc = gen::rand_doc(rng, &s, &o);
        for d in doc.iter_mut() { plain(d); fit_widths(rng, d); }
        // raw tags (ids outside the specification) as extra leaves, read back with unknown ids allowed
        let raws = i % 5 == 4;
        if raws {
            let mut used = s.ids(); used.push(0xbf); used.push(0xec);
            let flat = gen::flat_index(&doc);
            let ms: Vec<usize> = (0..flat.len()).filter(|k| flat[*k].is_master).collect();
            for _ in 0..rng.range(1, 3) {
                let id = gen::rand_id(rng, &mut used, true);
                let len = gen::payload_len(rng, false);
                let leaf = Node::leaf(id, Val::B(rng.bytes(len)));
                // raw tags end no master and are not validated: any position whose master is known-size
                if let Some(mi) = ms.iter().copied().find(|m| !gen::node_mut(&mut doc, &flat[*m].path).unk && rng.chance(1, 2)) { gen::node_mut(&mut doc, &flat[mi].path).kids.push(leaf); } else { doc.push(leaf); }
            }
        }
        // unknown sizes only where EBML determines the end unambiguously (a raw tag ends nothing)
        if i % 3 == 0 { let flat = gen::flat_index(&doc); let want: Vec<bool> = (0..flat.len()).map(|_| rng.chance(1, 2)).collect(); gen::assign_unknown(&mut doc, &s, &want); }
        let fullset: Vec<bool> = (0..64).map(|_| rng.chance(1, 3)).collect();
        let pick_full = move |p: &[usize]| fullset[(p.iter().sum::<usize>() + p.len() * 7) % 64];
        // masters written as Full lose per-child options: normalise those subtrees so `expect` is what was asked for
        fn norm(n: &mut Node, path: &mut Vec<usize>, full: &dyn Fn(&[usize]) -> bool) {
            if n.is_master() { if full(path) && !n.unk { let w = n.width; plain(n); n.width = w; } else { for (i, k) in n.kids.iter_mut().enumerate() { path.push(i); norm(k, path, full); path.pop(); } } }
        }
        for (k, d) in doc.iter_mut().enumerate() { let mut p = vec![k]; norm(d, &mut p, &pick_full); }
        let ops = ops_of(&doc, &pick_full, false);
        begin(out, &mut n, &s, "rt", json!({"expect": expect_json(&doc), "raws": raws}));
        let mut ops2 = ops.clone(); ops2.push(if rng.chance(1, 2) { WOp::Flush } else { WOp::IntoInner });
        let (dest, _) = run_writer(out, "w", &ops2, rand_sink(rng));
        if dest.len() < 60000 { readback(out, "r", &dest, raws); } else { readback(out, "r", &dest, raws); }
        out.ev(json!({"ev":"end"}));
    }
}

/// C09: the same document under different presentations / sinks (byte-equal), and under different
/// size options (same ids and payloads, widths honoured)
pub fn present(out: &mut Out, rng: &mut Rng, count: usize) {
    let mut n = 0usize;
    for i in 0..count {
        let s = pick_schema(rng, i);
        let mut doc = gen::rand_doc(rng, &s, &DocOpts { max_tags: 16, ..Default::default() });
        for d in doc.iter_mut() { plain(d); }
        // explicit size widths on masters (wide enough for their bodies): Full(width) must equal Start(width), children, End
        {
            let lay = gen::layout(&doc);
            let flat0 = gen::flat_index(&doc);
            for (k, f) in flat0.iter().enumerate() {
                // (root-level masters only: a master nested in a Full item cannot carry options of its own)
                if f.is_master && f.path.len() == 1 && rng.chance(2, 3) {
                    let w = *rng.pick(&[2usize, 2, 3, 4, 8]);
                    if (lay[k].size as u64) < (1u64 << (7 * w)) - 1 { gen::node_mut(&mut doc, &f.path).width = w; }
                }
            }
        }
        let flat = gen::flat_index(&doc);
        let masters: Vec<Vec<usize>> = flat.iter().filter(|f| f.is_master).map(|f| f.path.clone()).collect();
        if masters.is_empty() { continue; }
        // (a) presentations
        begin(out, &mut n, &s, "present", json!({}));
        let none = |_: &[usize]| false;
        let mut base = ops_of(&doc, &none, false); base.push(WOp::Flush);
        run_writer(out, "flat", &base, vec![]);
        let m = masters.len();
        let subsets: Vec<u64> = if m <= 4 { (1..(1u64 << m)).collect() } else { let mut v: Vec<u64> = (0..10).map(|_| 1 + rng.next_u64() % ((1u64 << m.min(60)) - 1)).collect(); v.push((1u64 << m.min(60)) - 1); v };
        for sub in subsets {
            let chosen: Vec<Vec<usize>> = masters.iter().enumerate().filter(|(k, _)| *k < 60 && (sub >> k) & 1 == 1).map(|(_, p)| p.clone()).collect();
            let f = move |p: &[usize]| chosen.iter().any(|c| c.as_slice() == p);
            let mut ops = ops_of(&doc, &f, false); ops.push(if rng.chance(1, 2) { WOp::Flush } else { WOp::IntoInner });
            run_writer(out, &format!("full:{sub:b}"), &ops, rand_sink(rng));
            if rng.chance(1, 2) { let r = runs_ops(&ops, rng); run_writer(out, &format!("runs:{sub:b}"), &r, rand_sink(rng)); }
            if rng.chance(1, 2) { let r = optioned_ends(&ops, rng); run_writer(out, &format!("ends:{sub:b}"), &r, rand_sink(rng)); }
        }
        out.ev(json!({"ev":"end"}));
        // (b) deprecated unknown-size call = option-based one
        let mut d2 = doc.clone();
        let want: Vec<bool> = (0..flat.len()).map(|_| rng.chance(1, 2)).collect();
        if gen::assign_unknown(&mut d2, &s, &want) > 0 {
            begin(out, &mut n, &s, "present", json!({}));
            let mut a = ops_of(&d2, &none, false); a.push(WOp::Flush);
            let mut bb = ops_of(&d2, &none, true); bb.push(WOp::Flush);
            run_writer(out, "option", &a, vec![]);
            run_writer(out, "deprecated", &bb, rand_sink(rng));
            out.ev(json!({"ev":"end"}));
        }
        // (d) one Full item with the unknown-size option
        {
            let pick = rng.pick(&masters).clone();
            let f = move |p: &[usize]| p == pick.as_slice();
            let mut ops = ops_of(&doc, &f, false);
            let dep = rng.chance(1, 2);
            let mut hit = false;
            for o in ops.iter_mut() {
                if hit { break; }
                if let WOp::Tag { tag, .. } = o { if matches!(tag.v, DynVal::M(Master::Full(_))) { hit = true; let t2 = tag.clone(); *o = if dep { WOp::StartUnknownDeprecated { tag: t2 } } else { WOp::Tag { tag: t2, width: 0, unknown: true } }; } }
            }
            if hit {
                ops.push(WOp::Flush);
                begin(out, &mut n, &s, "full_unknown", json!({}));
                let (dest, _) = run_writer(out, "plain", &base, vec![]);
                readback(out, "plain", &dest, false);
                let (dest, _) = run_writer(out, "opt", &ops, rand_sink(rng));
                readback(out, "opt", &dest, false);
                out.ev(json!({"ev":"end"}));
            }
        }
        // (c) size options: widths and unknown size affect size fields only
        begin(out, &mut n, &s, "options", json!({}));
        let (dest, _) = run_writer(out, "plain", &base, vec![]);
        readback(out, "plain", &dest, false);
        for k in 0..3 {
            let mut d3 = doc.clone();
            for d in d3.iter_mut() { fit_widths(rng, d); }
            if k > 0 { let want: Vec<bool> = (0..flat.len()).map(|_| rng.chance(1, 2)).collect(); gen::assign_unknown(&mut d3, &s, &want); }
            let mut ops = ops_of(&d3, &none, false); ops.push(WOp::Flush);
            // requested width per tag in document order (0 = default, -1 = unknown size)
            fn widths(nn: &Node, acc: &mut Vec<i64>) { acc.push(if nn.unk { -1 } else { nn.width as i64 }); for kk in &nn.kids { widths(kk, acc); } }
            let mut ws = Vec::new(); for d in &d3 { widths(d, &mut ws); }
            out.ev(json!({"ev":"note","widths": ws}));
            let (dest, _) = run_writer(out, &format!("opt:{k}"), &ops, rand_sink(rng));
            readback(out, &format!("opt:{k}"), &dest, false);
        }
        out.ev(json!({"ev":"end"}));
    }
}

/// C09: explicit size widths at the edge of what they can hold (payloads of 2^(7w)-2 .. 2^(7w) bytes): the width is honoured
/// exactly or the call is rejected - never silently widened
pub fn widths(out: &mut Out, rng: &mut Rng, count: usize) {
    let mut n = 0usize;
    // payloads larger than any internal transfer size (64 KiB and more), at the root / under unknown-size masters (handed over at
    // once) and under a known-size master, into a destination that takes a few KiB per write: the same bytes arrive
    {
        let s = gen::s3(); dynspec::install(s.clone());
        for (len, inner) in [(65536usize, 0u8), (70001, 1), (66000, 2)] {
            let g = DynTag { id: 0xec, v: DynVal::B((0..len).map(|i| (i * 31 + 7) as u8).collect()) };
            let ops: Vec<WOp> = match inner {
                0 => vec![t(g.clone()), WOp::Flush],
                1 => vec![WOp::Tag { tag: start(0x81), width: 0, unknown: true }, t(g.clone()), t(end(0x81)), WOp::Flush],
                _ => vec![t(start(0x81)), t(g.clone()), t(end(0x81)), WOp::Flush],
            };
            begin(out, &mut n, &s, "present", json!({}));
            run_writer(out, "whole", &ops, vec![]);
            run_writer(out, "pieces", &ops, (0..200).map(|_| SinkStep::Take(1 + rng.below(4096))).collect());
            run_writer(out, "pieces_int", &ops, (0..400).map(|k| if k % 3 == 1 { SinkStep::Interrupted } else { SinkStep::Take(1 + rng.below(2000)) }).collect());
            out.ev(json!({"ev":"end"}));
        }
    }
    for i in 0..count {
        let s = pick_schema(rng, i);
        let cands: Vec<&dynspec::Entry> = s.entries.iter().filter(|e| matches!(e.ty, TagDataType::Binary | TagDataType::Utf8)
            && e.path.iter().all(|p| matches!(p, ebml_iterable::specs::PathPart::Id(_)))).collect();
        if cands.is_empty() { continue; }
        let e = *rng.pick(&cands);
        let chain: Vec<u64> = e.path.iter().map(|p| match p { ebml_iterable::specs::PathPart::Id(id) => *id, _ => 0 }).collect();
        let (len, w) = *rng.pick(&[(126usize, 1usize), (127, 1), (128, 1), (127, 2), (5, 1), (16382, 2), (16383, 2), (16384, 2), (16383, 3), (127, 8), (0, 1)]);
        let mk = |rng: &mut Rng| if e.ty == TagDataType::Binary { DynTag { id: e.id, v: DynVal::B(rng.bytes(len)) } } else { DynTag { id: e.id, v: DynVal::S("w".repeat(len)) } };
        // every third case: an element whose id is outside the specification (raw tag) - a requested width binds it as well
        let raw = i % 3 == 2;
        let leaf = if raw { let mut used = s.ids(); used.push(0xbf); used.push(0xec); DynTag { id: gen::rand_id(rng, &mut used, false), v: DynVal::Raw(rng.bytes(len)) } } else { mk(rng) };
        let build = |width: usize| -> Vec<WOp> {
            let mut ops: Vec<WOp> = chain.iter().map(|id| t(start(*id))).collect();
            ops.push(WOp::Tag { tag: leaf.clone(), width, unknown: false });
            for id in chain.iter().rev() { ops.push(t(end(*id))); }
            ops.push(WOp::Flush); ops
        };
        begin(out, &mut n, &s, "width_exact", json!({"raws": raw}));
        let (dest, _) = run_writer(out, "plain", &build(0), vec![]);
        readback(out, "plain", &dest, raw);
        let mut ws: Vec<i64> = chain.iter().map(|_| 0).collect(); ws.push(w as i64);
        out.ev(json!({"ev":"note","widths": ws}));
        let (dest, _) = run_writer(out, "opt", &build(w), rand_sink(rng));
        readback(out, "opt", &dest, raw);
        out.ev(json!({"ev":"end"}));
    }
}

/// failing calls of every kind, to be inserted into valid call sequences (C19)
fn failing_call(rng: &mut Rng, s: &Schema, chain: &[u64]) -> Option<WOp> {
    let leaves: Vec<&dynspec::Entry> = s.entries.iter().filter(|e| e.ty != TagDataType::Master).collect();
    let masters: Vec<&dynspec::Entry> = s.entries.iter().filter(|e| e.ty == TagDataType::Master).collect();
    let mk = |rng: &mut Rng, e: &dynspec::Entry| -> DynTag { gen::to_tag(&Node::leaf(e.id, gen::rand_val(rng, e.ty, false, false).0)) };
    match rng.below(15) {
        13 | 14 => { // a Full item that would be fine - but with the unknown-size option (option-based or deprecated call)
            let ok: Vec<&&dynspec::Entry> = masters.iter().filter(|e| gen::matches(&e.path, chain)).collect();
            if ok.is_empty() { return None; }
            let m = **rng.pick(&ok);
            let mut ch = chain.to_vec(); ch.push(m.id);
            let good: Vec<&dynspec::Entry> = gen::allowed_children(s, &ch).into_iter().filter(|e| e.ty != TagDataType::Master).collect();
            let mut kids: Vec<DynTag> = Vec::new();
            for _ in 0..rng.below(3) { if !good.is_empty() { let e = *rng.pick(&good); kids.push(mk(rng, e)); } }
            let tag = DynTag { id: m.id, v: DynVal::M(Master::Full(kids)) };
            Some(if rng.chance(1, 2) { WOp::Tag { tag, width: 0, unknown: true } } else { WOp::StartUnknownDeprecated { tag } })
        }
        10 | 11 | 12 => { // Full master whose children end the master itself (and what was open before), or leave a child open
            let ok: Vec<&&dynspec::Entry> = masters.iter().filter(|e| gen::matches(&e.path, chain)).collect();
            if ok.is_empty() { return None; }
            let m = **rng.pick(&ok);
            let mut ch = chain.to_vec(); ch.push(m.id);
            let good: Vec<&dynspec::Entry> = gen::allowed_children(s, &ch).into_iter().filter(|e| e.ty != TagDataType::Master).collect();
            let inner: Vec<&dynspec::Entry> = gen::allowed_children(s, &ch).into_iter().filter(|e| e.ty == TagDataType::Master).collect();
            let mut kids: Vec<DynTag> = Vec::new();
            for _ in 0..rng.below(3) { if !good.is_empty() { let e = *rng.pick(&good); kids.push(mk(rng, e)); } }
            match rng.below(3) {
                0 => { kids.push(end(m.id)); }
                1 => { kids.push(end(m.id)); for id in chain.iter().rev() { kids.push(end(*id)); } }
                _ => { if inner.is_empty() { kids.push(end(m.id)); if !good.is_empty() { let e = *rng.pick(&good); kids.push(mk(rng, e)); } } else { let c = *rng.pick(&inner); kids.push(start(c.id)); } }
            }
            Some(t(DynTag { id: m.id, v: DynVal::M(Master::Full(kids)) }))
        }
        8 | 9 => { // Full master, valid children, but their total size is not representable in the requested width
            let ok: Vec<&&dynspec::Entry> = masters.iter().filter(|e| gen::matches(&e.path, chain)).collect();
            if ok.is_empty() { return None; }
            let m = **rng.pick(&ok);
            let mut ch = chain.to_vec(); ch.push(m.id);
            let big: Vec<&dynspec::Entry> = gen::allowed_children(s, &ch).into_iter().filter(|e| matches!(e.ty, TagDataType::Binary | TagDataType::Utf8)).collect();
            if big.is_empty() { return None; }
            let e = *rng.pick(&big);
            let idl = gen::id_bytes(e.id).len();
            // body of exactly 127 bytes (reserved pattern in one byte) or clearly more than 126
            let payload = if rng.chance(1, 2) && idl + 1 < 127 { 127 - idl - 1 } else { 130 + rng.below(100) };
            let kid = if e.ty == TagDataType::Binary { DynTag { id: e.id, v: DynVal::B(rng.bytes(payload)) } } else { DynTag { id: e.id, v: DynVal::S("b".repeat(payload)) } };
            Some(WOp::Tag { tag: DynTag { id: m.id, v: DynVal::M(Master::Full(vec![kid])) }, width: 1, unknown: false })
        }
        0 => { // tag not allowed here
            let bad: Vec<&&dynspec::Entry> = leaves.iter().filter(|e| !gen::matches(&e.path, chain)).collect();
            if bad.is_empty() { return None; }
            let e = **rng.pick(&bad); Some(t(mk(rng, e)))
        }
        1 => { // master start not allowed here (also with unknown size)
            let bad: Vec<&&dynspec::Entry> = masters.iter().filter(|e| !gen::matches(&e.path, chain)).collect();
            if bad.is_empty() { return None; }
            let e = **rng.pick(&bad); Some(WOp::Tag { tag: start(e.id), width: 0, unknown: rng.chance(1, 2) })
        }
        2 => { // size not representable in the requested width
            let ok: Vec<&&dynspec::Entry> = leaves.iter().filter(|e| matches!(e.ty, TagDataType::Binary | TagDataType::Utf8) && gen::matches(&e.path, chain)).collect();
            if ok.is_empty() { return None; }
            let e = **rng.pick(&ok);
            let len = *rng.pick(&[127usize, 128, 200, 300]);
            let tag = if e.ty == TagDataType::Binary { DynTag { id: e.id, v: DynVal::B(rng.bytes(len)) } } else { DynTag { id: e.id, v: DynVal::S("a".repeat(len)) } };
            Some(WOp::Tag { tag, width: 1, unknown: false })
        }
        3 => { // unknown size on a non-master
            if leaves.is_empty() { return None; }
            let e = *rng.pick(&leaves); Some(WOp::Tag { tag: mk(rng, e), width: 0, unknown: true })
        }
        4 => { // malformed raw id
            let id = *rng.pick(&[1u64, 0x1234, 0x7f, 0x4000_0000, 0xff_ffff, 0x8000_0000_0000_0000, 0x0100, 0x20]);
            if s.get(id).is_some() { return None; }
            Some(t(DynTag { id, v: DynVal::Raw(vec![1, 2, 3]) }))
        }
        5 => { // End of a master that is not the innermost open one (or nothing open)
            let cand: Vec<u64> = masters.iter().map(|e| e.id).filter(|id| chain.last() != Some(id)).collect();
            if cand.is_empty() { return None; }
            // (a size option on an End means nothing - it must not leak anywhere either)
            Some(WOp::Tag { tag: end(*rng.pick(&cand)), width: *rng.pick(&[0usize, 0, 1, 2, 8]), unknown: false })
        }
        _ => { // Full master allowed here but with an invalid child (at depth 1 or 2)
            let ok: Vec<&&dynspec::Entry> = masters.iter().filter(|e| gen::matches(&e.path, chain)).collect();
            if ok.is_empty() { return None; }
            let m = **rng.pick(&ok);
            let mut ch = chain.to_vec(); ch.push(m.id);
            let bad: Vec<&&dynspec::Entry> = leaves.iter().filter(|e| !gen::matches(&e.path, &ch)).collect();
            if bad.is_empty() { return None; }
            let good: Vec<&dynspec::Entry> = gen::allowed_children(s, &ch).into_iter().filter(|e| e.ty != TagDataType::Master).collect();
            let mut kids: Vec<DynTag> = Vec::new();
            for _ in 0..rng.below(3) { if !good.is_empty() { let e = *rng.pick(&good); kids.push(mk(rng, e)); } }
            let badtag = { let e = **rng.pick(&bad); mk(rng, e) };
            let inner: Vec<&dynspec::Entry> = gen::allowed_children(s, &ch).into_iter().filter(|e| e.ty == TagDataType::Master).collect();
            if !inner.is_empty() && rng.chance(1, 2) {
                // invalid grandchild inside a valid child master (only if it is invalid there too)
                let im = *rng.pick(&inner); let mut ch2 = ch.clone(); ch2.push(im.id);
                let bad2: Vec<&&dynspec::Entry> = leaves.iter().filter(|e| !gen::matches(&e.path, &ch2)).collect();
                if bad2.is_empty() { return None; }
                let bt = { let e = **rng.pick(&bad2); mk(rng, e) };
                kids.push(DynTag { id: im.id, v: DynVal::M(Master::Full(vec![bt])) });
            } else { kids.push(badtag); }
            Some(t(DynTag { id: m.id, v: DynVal::M(Master::Full(kids)) }))
        }
    }
}

/// C19 / C10: valid call sequences with failing calls inserted at random positions, paired with the sequence without them
pub fn calls(out: &mut Out, rng: &mut Rng, count: usize) {
    let mut n = 0usize;
    for i in 0..count {
        let s = pick_schema(rng, i);
        let mut doc = gen::rand_doc(rng, &s, &DocOpts { max_tags: 14, ..Default::default() });
        for d in doc.iter_mut() { plain(d); fit_widths(rng, d); }
        if i % 2 == 0 { let flat = gen::flat_index(&doc); let want: Vec<bool> = (0..flat.len()).map(|_| rng.chance(1, 2)).collect(); gen::assign_unknown(&mut doc, &s, &want); }
        let fullset: Vec<bool> = (0..64).map(|_| rng.chance(1, 4)).collect();
        let pick_full = move |p: &[usize]| fullset[(p.iter().sum::<usize>() + p.len() * 7) % 64];
        let valid = { let v = ops_of(&doc, &pick_full, false); if i % 3 == 1 { runs_ops(&v, rng) } else if i % 3 == 2 { optioned_ends(&v, rng) } else { v } };
        // chain of open masters before each op of the valid sequence
        let mut chains: Vec<Vec<u64>> = Vec::new(); let mut ch: Vec<u64> = Vec::new();
        for op in &valid {
            chains.push(ch.clone());
            match op { WOp::Tag { tag, .. } => match &tag.v { DynVal::M(Master::Start) => ch.push(tag.id), DynVal::M(Master::End) => { ch.pop(); } _ => {} }, WOp::StartUnknownDeprecated { tag } => match &tag.v { DynVal::M(Master::Start) => ch.push(tag.id), DynVal::M(Master::End) => { ch.pop(); } _ => {} }, _ => {} }
        }
        chains.push(ch.clone());
        // after_unknown_end[k]: the valid op before position k is the End of an unknown-size master (a raw tag written
        // there would be read as its content: the ambiguity C07 excludes)
        let mut after_unknown_end: Vec<bool> = vec![false];
        { let mut st: Vec<bool> = Vec::new();
          for op in &valid {
              let mut flag = false;
              match op { WOp::Tag { tag, unknown, .. } => match &tag.v { DynVal::M(Master::Start) => st.push(*unknown), DynVal::M(Master::End) => { flag = st.pop().unwrap_or(false); } _ => {} },
                         WOp::StartUnknownDeprecated { tag } => match &tag.v { DynVal::M(Master::Start) => st.push(true), DynVal::M(Master::End) => { flag = st.pop().unwrap_or(false); } _ => {} }, _ => {} }
              after_unknown_end.push(flag);
          } }
        let mut with: Vec<WOp> = Vec::new(); let mut marks: Vec<bool> = Vec::new();
        let mut without: Vec<WOp> = Vec::new();
        let mut composite_done = false;
        for k in 0..=valid.len() {
            // composite: a master started with size width 1 whose content grows beyond 126 bytes: its End must be rejected
            // (size not representable) and leave the master open, exactly as if the End had never been attempted
            // (only after the last valid call: the master stays open, which would change what is allowed afterwards)
            if !composite_done && k == valid.len() && rng.chance(1, 2) {
                let ms: Vec<&dynspec::Entry> = s.entries.iter().filter(|e| e.ty == TagDataType::Master && gen::matches(&e.path, &chains[k])).collect();
                if !ms.is_empty() {
                    let m = *rng.pick(&ms);
                    let mut ch = chains[k].clone(); ch.push(m.id);
                    let big: Vec<&dynspec::Entry> = gen::allowed_children(&s, &ch).into_iter().filter(|e| matches!(e.ty, TagDataType::Binary | TagDataType::Utf8)).collect();
                    if !big.is_empty() {
                        let e = *rng.pick(&big);
                        let n = *rng.pick(&[127usize, 130, 200]);    // with the 2-3 header bytes: >= 127 bytes of content
                        let kid = if e.ty == TagDataType::Binary { DynTag { id: e.id, v: DynVal::B(rng.bytes(n)) } } else { DynTag { id: e.id, v: DynVal::S("c".repeat(n)) } };
                        let st = WOp::Tag { tag: start(m.id), width: 1, unknown: false };
                        // variant: a master inside it is still open when flush() is tried: flush() cannot end the outer master
                        // (its size does not fit) and must then not have ended the inner one either
                        let inner: Vec<&dynspec::Entry> = gen::allowed_children(&s, &ch).into_iter().filter(|e| e.ty == TagDataType::Master).collect();
                        if !inner.is_empty() && rng.chance(1, 2) {
                            let im = *rng.pick(&inner);
                            for o in [st.clone(), t(kid.clone()), t(start(im.id))] { with.push(o.clone()); marks.push(false); without.push(o); }
                            with.push(WOp::Flush); marks.push(true);
                            let e = t(end(im.id)); with.push(e.clone()); marks.push(false); without.push(e);
                            with.push(t(end(m.id))); marks.push(true);
                        } else {
                            for o in [st.clone(), t(kid.clone())] { with.push(o.clone()); marks.push(false); without.push(o); }
                            with.push(t(end(m.id))); marks.push(true);
                        }
                        composite_done = true;
                    }
                }
            }
            for _ in 0..2 { if !composite_done && rng.chance(1, 3) { if let Some(f) = failing_call(rng, &s, &chains[k]) { with.push(f); marks.push(true); } } }
            // write_raw (no validation at all): a well-formed id outside the specification, anywhere
            if rng.chance(1, 6) && !after_unknown_end[k] {
                let mut used = s.ids(); used.push(0xbf); used.push(0xec);
                let o = WOp::WriteRaw { id: gen::rand_id(rng, &mut used, false), data: rng.bytes(3) };
                with.push(o.clone()); marks.push(false); without.push(o);
            }
            if k < valid.len() { with.push(valid[k].clone()); marks.push(false); without.push(valid[k].clone()); }
        }
        if !marks.iter().any(|m| *m) { continue; }
        let fin = if rng.chance(1, 2) { WOp::Flush } else { WOp::IntoInner };
        with.push(fin.clone()); marks.push(false);
        without.push(fin);
        let optional: Vec<bool> = with.iter().zip(marks.iter()).map(|(o, m)| *m && match o {
            WOp::Tag { tag, unknown: true, .. } | WOp::StartUnknownDeprecated { tag } => matches!(tag.v, DynVal::M(Master::Full(_))), _ => false }).collect();
        begin(out, &mut n, &s, "noop", json!({"inserted": marks, "optional": optional, "raws": true}));
        run_writer(out, "with", &with, rand_sink(rng));
        run_writer(out, "without", &without, vec![]);
        out.ev(json!({"ev":"end"}));
    }
}

/// C10: flush() / into_inner() while masters (known- and unknown-size, in any nesting) are still open, then a second
/// document from the root: both close every open master and deliver everything
pub fn flush_open(out: &mut Out, rng: &mut Rng, count: usize) {
    let mut n = 0usize;
    for i in 0..count {
        let s = pick_schema(rng, i);
        let mut mk = |rng: &mut Rng| {
            let mut doc = gen::rand_doc(rng, &s, &DocOpts { max_tags: 10, ..Default::default() });
            for d in doc.iter_mut() { plain(d); fit_widths(rng, d); }
            let flat = gen::flat_index(&doc); let want: Vec<bool> = (0..flat.len()).map(|_| rng.chance(1, 2)).collect(); gen::assign_unknown(&mut doc, &s, &want);
            let fullset: Vec<bool> = (0..64).map(|_| rng.chance(1, 5)).collect();
            let pick_full = move |p: &[usize]| fullset[(p.iter().sum::<usize>() + p.len() * 7) % 64];
            ops_of(&doc, &pick_full, false)
        };
        let first = mk(rng);
        // cut where at least one master is open
        let mut depth = 0usize; let mut cuts: Vec<usize> = Vec::new();
        for (k, op) in first.iter().enumerate() {
            match op { WOp::Tag { tag, .. } => match &tag.v { DynVal::M(Master::Start) => depth += 1, DynVal::M(Master::End) => depth -= 1, _ => {} }, WOp::StartUnknownDeprecated { tag } => match &tag.v { DynVal::M(Master::Start) => depth += 1, DynVal::M(Master::End) => depth -= 1, _ => {} }, _ => {} }
            if depth > 0 { cuts.push(k + 1); }
        }
        if cuts.is_empty() { continue; }
        let cut = *rng.pick(&cuts);
        let mut ops: Vec<WOp> = first[..cut].to_vec();
        if rng.chance(1, 4) { ops.push(WOp::IntoInner); }
        else {
            // the second document must not start with a global element: directly after the (byte-less) end of an
            // unknown-size master no reader can tell it from more content of that master (the ambiguity C07 excludes)
            let named_first = |ops: &[WOp]| match ops.first() { Some(WOp::Tag { tag, .. }) => s.get(tag.id).map(|e| e.path.iter().all(|p| matches!(p, ebml_iterable::specs::PathPart::Id(_)))).unwrap_or(false), _ => false };
            let mut second = mk(rng); let mut tries = 0;
            while !named_first(&second) && tries < 10 { second = mk(rng); tries += 1; }
            if !named_first(&second) { continue; }
            ops.push(WOp::Flush); ops.extend(second); ops.push(if rng.chance(1, 2) { WOp::Flush } else { WOp::IntoInner });
        }
        begin(out, &mut n, &s, "stream", json!({}));
        run_writer(out, "flush_open", &ops, rand_sink(rng));
        out.ev(json!({"ev":"end"}));
    }
}

/// C02: streams the strict reader accepts -> re-written -> read again
pub fn fix(out: &mut Out, rng: &mut Rng, count: usize) {
    let mut n = 0usize;
    // re-writing must not turn a master whose body has 2^(7k)-1 bytes into an unknown-size one
    { let s = gen::s3();
      for &target in &[126usize, 127, 128, 16383] { for level in 0..3 {
        if let Some(doc) = body_boundary_doc(level, target) {
            let bytes = gen::encode_doc(&doc);
            begin(out, &mut n, &s, "fix", json!({"master_body": true}));
            let (tags, clean) = readback(out, "r1", &bytes, false);
            if clean && !tags.is_empty() { let mut ops: Vec<WOp> = tags.into_iter().map(t).collect(); ops.push(WOp::Flush); let (dest, _) = run_writer(out, "w", &ops, vec![]); readback(out, "r2", &dest, false); }
            out.ev(json!({"ev":"end"}));
        } } } }
    for i in 0..count {
        let s = pick_schema(rng, i);
        let o = DocOpts { max_tags: 20, widths: true, noncanon: true, ..Default::default() };
        let mut doc = gen::rand_doc(rng, &s, &o);
        gen::clear_unknown(&mut doc);
        if i % 2 == 0 { let flat = gen::flat_index(&doc); let want: Vec<bool> = (0..flat.len()).map(|_| rng.chance(1, 2)).collect(); gen::assign_unknown(&mut doc, &s, &want); }
        // every fifth case: one element copied to a place where it may not belong (another master, or the root): whatever the strict
        // reader still accepts, the writer must accept as well
        if i % 5 == 4 {
            let flat = gen::flat_index(&doc);
            let leaves: Vec<Vec<usize>> = flat.iter().filter(|f| !f.is_master).map(|f| f.path.clone()).collect();
            let masters: Vec<Vec<usize>> = flat.iter().filter(|f| f.is_master).map(|f| f.path.clone()).collect();
            // preferred: an element whose path has a placeholder with a maximum, put deeper than that maximum allows
            let bounded: Vec<(&dynspec::Entry, u64)> = s.entries.iter().filter(|e| e.ty != TagDataType::Master)
                .filter_map(|e| e.path.iter().filter_map(|p| match p { ebml_iterable::specs::PathPart::Global((_, Some(mx))) => Some(*mx), _ => None }).max().map(|mx| (e, mx))).collect();
            let mut done = false;
            if !bounded.is_empty() && rng.chance(3, 4) {
                let (e, mx) = *rng.pick(&bounded[..]);
                let deep: Vec<Vec<usize>> = masters.iter().filter(|m| m.len() as u64 > mx).cloned().collect();
                if !deep.is_empty() {
                    let m: Vec<usize> = rng.pick(&deep[..]).clone();
                    let leaf = Node::leaf(e.id, gen::rand_val(rng, e.ty, false, false).0);
                    gen::node_mut(&mut doc, &m).kids.push(leaf); done = true;
                }
            }
            if !done && !leaves.is_empty() {
                let lp: Vec<usize> = rng.pick(&leaves[..]).clone(); let leaf = gen::node_mut(&mut doc, &lp).clone();
                if !masters.is_empty() && rng.chance(4, 5) { let m: Vec<usize> = rng.pick(&masters[..]).clone(); gen::node_mut(&mut doc, &m).kids.push(leaf); } else { doc.push(leaf); }
            }
        }
        let mut bytes = gen::encode_doc(&doc);
        if i % 4 == 3 { crate::drv_reader::mutate(rng, &mut bytes); }
        if bytes.len() > 4000 { continue; }
        begin(out, &mut n, &s, "fix", json!({}));
        let (tags, clean) = readback(out, "r1", &bytes, false);
        if clean && !tags.is_empty() {
            let mut ops: Vec<WOp> = tags.into_iter().map(t).collect(); ops.push(WOp::Flush);
            let (dest, _) = run_writer(out, "w", &ops, rand_sink(rng));
            readback(out, "r2", &dest, false);
        }
        out.ev(json!({"ev":"end"}));
    }
}

pub fn run(out: &mut Out, which: &str, seed: u64, thorough: bool) {
    let mut rng = Rng::new(seed);
    let k = if thorough { 10 } else { 1 };
    match which {
        "rt" => rt(out, &mut rng, 1000 * k, thorough, true),
        "rt_small" => rt(out, &mut rng, 400 * k, false, false),
        "present" => present(out, &mut rng, 150 * k),
        "calls" => calls(out, &mut rng, 400 * k),
        "widths" => widths(out, &mut rng, 60 * k),
        "flush_open" => flush_open(out, &mut rng, 300 * k),
        "fix" => fix(out, &mut rng, 500 * k),
        x => panic!("unknown writer driver {x}"),
    }
}
