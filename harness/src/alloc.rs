//! Counting global allocator: live and peak heap bytes (C17 measures peak growth per call).
use std::alloc::{GlobalAlloc, Layout, System};
use std::sync::atomic::{AtomicUsize, Ordering::Relaxed};

pub struct Counting;
static CUR: AtomicUsize = AtomicUsize::new(0);
static PEAK: AtomicUsize = AtomicUsize::new(0);

unsafe impl GlobalAlloc for Counting {
    unsafe fn alloc(&self, l: Layout) -> *mut u8 {
        let p = System.alloc(l);
        if !p.is_null() { let c = CUR.fetch_add(l.size(), Relaxed) + l.size(); PEAK.fetch_max(c, Relaxed); }
        p
    }
    unsafe fn dealloc(&self, p: *mut u8, l: Layout) { System.dealloc(p, l); CUR.fetch_sub(l.size(), Relaxed); }
    unsafe fn alloc_zeroed(&self, l: Layout) -> *mut u8 {
        let p = System.alloc_zeroed(l);
        if !p.is_null() { let c = CUR.fetch_add(l.size(), Relaxed) + l.size(); PEAK.fetch_max(c, Relaxed); }
        p
    }
    unsafe fn realloc(&self, p: *mut u8, l: Layout, new: usize) -> *mut u8 {
        let q = System.realloc(p, l, new);
        if !q.is_null() {
            if new >= l.size() { let c = CUR.fetch_add(new - l.size(), Relaxed) + (new - l.size()); PEAK.fetch_max(c, Relaxed); }
            else { CUR.fetch_sub(l.size() - new, Relaxed); }
        }
        q
    }
}
pub fn current() -> usize { CUR.load(Relaxed) }
pub fn peak() -> usize { PEAK.load(Relaxed) }
pub fn reset_peak() { PEAK.store(CUR.load(Relaxed), Relaxed); }
