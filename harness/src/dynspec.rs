//! DynSpec: a runtime-configurable implementation of EbmlSpecification / EbmlTag, so that
//! drivers can exercise the reader and writer over arbitrary (random) specifications with
//! ids of 1-8 bytes.  The installed schema lives behind a global lock; path slices are
//! interned and leaked to obtain `&'static`.
use ebml_iterable::specs::{EbmlSpecification, EbmlTag, Master, PathPart, TagDataType};
use serde_json::{json, Value};
use std::collections::HashMap;
use std::sync::{Arc, Mutex, RwLock};

#[derive(Clone, Debug, PartialEq)]
pub enum DynVal {
    M(Master<DynTag>),
    U(u64),
    I(i64),
    S(String),
    B(Vec<u8>),
    F(f64),
    Raw(Vec<u8>),
}
#[derive(Clone, Debug, PartialEq)]
pub struct DynTag {
    pub id: u64,
    pub v: DynVal,
}

#[derive(Clone, Debug)]
pub struct Entry {
    pub id: u64,
    pub ty: TagDataType,
    pub path: Vec<PathPart>,
    pub name: String,
}
#[derive(Clone, Debug, Default)]
pub struct Schema {
    pub entries: Vec<Entry>,
}
struct Installed {
    map: HashMap<u64, (TagDataType, &'static [PathPart])>,
}
static CUR: RwLock<Option<Arc<Installed>>> = RwLock::new(None);
static INTERN: Mutex<Option<HashMap<Vec<PathPart>, &'static [PathPart]>>> = Mutex::new(None);

fn intern(p: &[PathPart]) -> &'static [PathPart] {
    let mut g = INTERN.lock().unwrap();
    let m = g.get_or_insert_with(HashMap::new);
    if let Some(s) = m.get(p) { return s; }
    let leaked: &'static [PathPart] = Box::leak(p.to_vec().into_boxed_slice());
    m.insert(p.to_vec(), leaked);
    leaked
}

pub fn install(s: Schema) {
    let mut map = HashMap::new();
    for e in &s.entries { map.insert(e.id, (e.ty, intern(&e.path))); }
    *CUR.write().unwrap() = Some(Arc::new(Installed { map }));
}
fn cur() -> Arc<Installed> { CUR.read().unwrap().as_ref().expect("no schema installed").clone() }

impl Schema {
    /// easy_ebml-like text: "A:master=0x81, A/B:master=0x82, A/B/U:uint=0x84, (1-)/Crc:bin=0xbf"
    pub fn parse(text: &str) -> Schema {
        let mut entries: Vec<Entry> = Vec::new();
        let mut names: HashMap<String, u64> = HashMap::new();
        let items: Vec<(Vec<String>, String, u64)> = text.split(',').map(|s| s.trim()).filter(|s| !s.is_empty()).map(|item| {
            let (lhs, id) = item.split_once('=').expect("= in schema item");
            let (path, ty) = lhs.split_once(':').expect(": in schema item");
            let id = id.trim();
            let id = if let Some(h) = id.strip_prefix("0x") { u64::from_str_radix(h, 16).unwrap() } else { id.parse().unwrap() };
            (path.trim().split('/').map(|s| s.trim().to_string()).collect(), ty.trim().to_string(), id)
        }).collect();
        for (p, _, id) in &items { names.insert(p.last().unwrap().clone(), *id); }
        for (p, ty, id) in items {
            let ty = match ty.as_str() {
                "master" => TagDataType::Master, "uint" => TagDataType::UnsignedInt, "int" => TagDataType::Integer,
                "utf8" => TagDataType::Utf8, "bin" => TagDataType::Binary, "float" => TagDataType::Float,
                x => panic!("bad type {x}"),
            };
            let path = p[..p.len() - 1].iter().map(|part| {
                if let Some(inner) = part.strip_prefix('(') {
                    let inner = inner.strip_suffix(')').unwrap();
                    let (a, z) = inner.split_once('-').unwrap();
                    PathPart::Global((if a.is_empty() { None } else { Some(a.parse().unwrap()) }, if z.is_empty() { None } else { Some(z.parse().unwrap()) }))
                } else { PathPart::Id(*names.get(part).unwrap_or_else(|| panic!("unknown parent {part}"))) }
            }).collect();
            entries.push(Entry { id, ty, path, name: p.last().unwrap().clone() });
        }
        Schema { entries }
    }
    pub fn get(&self, id: u64) -> Option<&Entry> { self.entries.iter().find(|e| e.id == id) }
    pub fn ids(&self) -> Vec<u64> { self.entries.iter().map(|e| e.id).collect() }
    pub fn masters(&self) -> Vec<u64> { self.entries.iter().filter(|e| e.ty == TagDataType::Master).map(|e| e.id).collect() }
}

pub fn codec_schema() -> Schema { Schema::parse("U:uint=0x81, I:int=0x82, F:float=0x83") }

pub fn ty_name(t: Option<TagDataType>) -> &'static str {
    match t {
        Some(TagDataType::Master) => "master", Some(TagDataType::UnsignedInt) => "uint", Some(TagDataType::Integer) => "int",
        Some(TagDataType::Utf8) => "utf8", Some(TagDataType::Binary) => "bin", Some(TagDataType::Float) => "float", None => "raw",
    }
}

/// The schema table of a case event, obtained by *querying the trait functions* of T for the
/// given ids, so the table the specification sees is what the library sees.
pub fn schema_json<T: EbmlSpecification<T> + EbmlTag<T> + Clone>(ids: &[u64]) -> Value {
    Value::Array(ids.iter().filter_map(|&id| {
        let ty = T::get_tag_data_type(id)?;
        let path: Vec<Value> = T::get_path_by_id(id).iter().map(|p| match p {
            PathPart::Id(i) => json!({"k":"id","id":crate::j::idw(*i),"min":0,"max":0}),
            PathPart::Global((a, z)) => json!({"k":"glob","id":[],"min":crate::j::n(a.unwrap_or(0) as usize),
                "max": match z { Some(m) => json!(*m as i64), None => json!(-1) }}),
        }).collect();
        Some(json!({"id":crate::j::idw(id),"ty":ty_name(Some(ty)),"path":path}))
    }).collect())
}

impl EbmlSpecification<DynTag> for DynTag {
    fn get_tag_data_type(id: u64) -> Option<TagDataType> { cur().map.get(&id).map(|e| e.0) }
    fn get_path_by_id(id: u64) -> &'static [PathPart] { cur().map.get(&id).map(|e| e.1).unwrap_or(&[]) }
    fn get_unsigned_int_tag(id: u64, data: u64) -> Option<DynTag> {
        (Self::get_tag_data_type(id) == Some(TagDataType::UnsignedInt)).then(|| DynTag { id, v: DynVal::U(data) })
    }
    fn get_signed_int_tag(id: u64, data: i64) -> Option<DynTag> {
        (Self::get_tag_data_type(id) == Some(TagDataType::Integer)).then(|| DynTag { id, v: DynVal::I(data) })
    }
    fn get_utf8_tag(id: u64, data: String) -> Option<DynTag> {
        (Self::get_tag_data_type(id) == Some(TagDataType::Utf8)).then(|| DynTag { id, v: DynVal::S(data) })
    }
    fn get_binary_tag(id: u64, data: &[u8]) -> Option<DynTag> {
        (Self::get_tag_data_type(id) == Some(TagDataType::Binary)).then(|| DynTag { id, v: DynVal::B(data.to_vec()) })
    }
    fn get_float_tag(id: u64, data: f64) -> Option<DynTag> {
        (Self::get_tag_data_type(id) == Some(TagDataType::Float)).then(|| DynTag { id, v: DynVal::F(data) })
    }
    fn get_master_tag(id: u64, data: Master<DynTag>) -> Option<DynTag> {
        (Self::get_tag_data_type(id) == Some(TagDataType::Master)).then(|| DynTag { id, v: DynVal::M(data) })
    }
    fn get_raw_tag(id: u64, data: &[u8]) -> DynTag { DynTag { id, v: DynVal::Raw(data.to_vec()) } }
}

impl EbmlTag<DynTag> for DynTag {
    fn get_id(&self) -> u64 { self.id }
    fn as_unsigned_int(&self) -> Option<&u64> { if let DynVal::U(x) = &self.v { Some(x) } else { None } }
    fn as_signed_int(&self) -> Option<&i64> { if let DynVal::I(x) = &self.v { Some(x) } else { None } }
    fn as_utf8(&self) -> Option<&str> { if let DynVal::S(x) = &self.v { Some(x) } else { None } }
    fn as_binary(&self) -> Option<&[u8]> { match &self.v { DynVal::B(x) | DynVal::Raw(x) => Some(x), _ => None } }
    fn as_float(&self) -> Option<&f64> { if let DynVal::F(x) = &self.v { Some(x) } else { None } }
    fn as_master(&self) -> Option<&Master<DynTag>> { if let DynVal::M(x) = &self.v { Some(x) } else { None } }
}

/// Any tag of any specification as a JSON item: kind, id, ty, val (8-byte word for numbers,
/// bytes otherwise), kids (for Full masters) — through the EbmlTag accessors only.
pub fn tag_json<T: EbmlSpecification<T> + EbmlTag<T> + Clone>(t: &T) -> Value {
    use crate::j::*;
    let id = t.get_id();
    let ty = T::get_tag_data_type(id);
    let mut kind = "elem";
    let mut val = json!([]);
    let mut kids: Vec<Value> = Vec::new();
    match ty {
        Some(TagDataType::Master) => match t.as_master() {
            Some(Master::Start) => kind = "start",
            Some(Master::End) => kind = "end",
            Some(Master::Full(c)) => { kind = "full"; kids = c.iter().map(|k| tag_json(k)).collect(); }
            None => kind = "bad",
        },
        Some(TagDataType::UnsignedInt) => match t.as_unsigned_int() { Some(v) => val = w8(*v), None => kind = "bad" },
        Some(TagDataType::Integer) => match t.as_signed_int() { Some(v) => val = i8w(*v), None => kind = "bad" },
        Some(TagDataType::Float) => match t.as_float() { Some(v) => val = f8w(*v), None => kind = "bad" },
        Some(TagDataType::Utf8) => match t.as_utf8() { Some(v) => val = b(v.as_bytes()), None => kind = "bad" },
        Some(TagDataType::Binary) => match t.as_binary() { Some(v) => val = b(v), None => kind = "bad" },
        None => { kind = "raw"; match t.as_binary() { Some(v) => val = b(v), None => kind = "bad" } }
    }
    json!({"kind":kind,"id":idw(id),"ty":ty_name(ty),"val":val,"kids":kids})
}
