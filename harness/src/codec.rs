//! Driver `codec`: calls the real vint / payload codec functions (tools.rs) and the writer's
//! payload encoders on exhaustive small domains, the boundary lattice and random values, and
//! records one `codec` event per call (C15, C16).  No verdicts here: CodecTrace.tla decides.
use crate::j::*;
use crate::rng::Rng;
use ebml_iterable::tools::{self, SignedVint, Vint};
use serde_json::{json, Value};
use std::panic::{catch_unwind, AssertUnwindSafe};

fn ev(f: &str, inp: Value, w: usize) -> Value {
    json!({"ev":"codec","fn":f,"in":inp,"w":w,"res":"","bytes":[],"val":[],"len":0})
}
fn fin(out: &mut Out, mut e: Value, res: &str, bytes: Option<&[u8]>, val: Option<Value>, len: usize) {
    e["res"] = json!(res);
    if let Some(x) = bytes { e["bytes"] = b(x); }
    if let Some(v) = val { e["val"] = v; }
    e["len"] = json!(len);
    out.ev(e);
}

pub fn unsigned_value(out: &mut Out, v: u64) {
    let e = ev("as_vint", w8(v), 0);
    match catch_unwind(|| v.as_vint()) {
        Ok(Ok(x)) => fin(out, e, "ok", Some(&x), None, 0),
        Ok(Err(_)) => fin(out, e, "overflow", None, None, 0),
        Err(_) => fin(out, e, "panic", None, None, 0),
    }
    macro_rules! wl { ($n:literal) => {{
        let e = ev("as_vint_w", w8(v), $n);
        match catch_unwind(|| v.as_vint_with_length::<$n>()) {
            Ok(Ok(x)) => fin(out, e, "ok", Some(&x[..]), None, 0),
            Ok(Err(_)) => fin(out, e, "overflow", None, None, 0),
            Err(_) => fin(out, e, "panic", None, None, 0),
        }
    }}}
    wl!(1); wl!(2); wl!(3); wl!(4); wl!(5); wl!(6); wl!(7); wl!(8);
    let e = ev("is_vint", w8(v), 0);
    match catch_unwind(|| tools::is_vint(v)) {
        Ok(true) => fin(out, e, "true", None, None, 0),
        Ok(false) => fin(out, e, "false", None, None, 0),
        Err(_) => fin(out, e, "panic", None, None, 0),
    }
}

pub fn signed_value(out: &mut Out, v: i64) {
    let e = ev("as_svint", i8w(v), 0);
    match catch_unwind(|| v.as_signed_vint()) {
        Ok(Ok(x)) => fin(out, e, "ok", Some(&x), None, 0),
        Ok(Err(_)) => fin(out, e, "overflow", None, None, 0),
        Err(_) => fin(out, e, "panic", None, None, 0),
    }
    for w in 1..=8usize {
        let e = ev("as_svint_w", i8w(v), w);
        match catch_unwind(|| v.as_signed_vint_with_length(w)) {
            Ok(Ok(x)) => {
                fin(out, e, "ok", Some(&x), None, 0);
                slice(out, &x, true); // "decodes back whatever it encoded"
            }
            Ok(Err(_)) => fin(out, e, "overflow", None, None, 0),
            Err(_) => fin(out, e, "panic", None, None, 0),
        }
    }
}

/// decoders on an arbitrary byte slice
pub fn slice(out: &mut Out, s: &[u8], signed_only: bool) {
    if !signed_only {
        let e = ev("read_vint", b(s), 0);
        match catch_unwind(|| tools::read_vint(s)) {
            Ok(Ok(Some((v, l)))) => fin(out, e, "ok", None, Some(w8(v)), l),
            Ok(Ok(None)) => fin(out, e, "more", None, None, 0),
            Ok(Err(_)) => fin(out, e, "err", None, None, 0),
            Err(_) => fin(out, e, "panic", None, None, 0),
        }
    }
    let e = ev("read_svint", b(s), 0);
    match catch_unwind(|| tools::read_signed_vint(s)) {
        Ok(Ok(Some((v, l)))) => fin(out, e, "ok", None, Some(i8w(v)), l),
        Ok(Ok(None)) => fin(out, e, "more", None, None, 0),
        Ok(Err(_)) => fin(out, e, "err", None, None, 0),
        Err(_) => fin(out, e, "panic", None, None, 0),
    }
}

pub fn payload_slice(out: &mut Out, s: &[u8]) {
    let e = ev("arr_to_u64", b(s), 0);
    match catch_unwind(|| tools::arr_to_u64(s)) {
        Ok(Ok(v)) => fin(out, e, "ok", None, Some(w8(v)), 0),
        Ok(Err(_)) => fin(out, e, "err", None, None, 0),
        Err(_) => fin(out, e, "panic", None, None, 0),
    }
    let e = ev("arr_to_i64", b(s), 0);
    match catch_unwind(|| tools::arr_to_i64(s)) {
        Ok(Ok(v)) => fin(out, e, "ok", None, Some(i8w(v)), 0),
        Ok(Err(_)) => fin(out, e, "err", None, None, 0),
        Err(_) => fin(out, e, "panic", None, None, 0),
    }
    let e = ev("arr_to_f64", b(s), 0);
    match catch_unwind(|| tools::arr_to_f64(s)) {
        Ok(Ok(v)) => fin(out, e, "ok", None, Some(f8w(v)), 0),
        Ok(Err(_)) => fin(out, e, "err", None, None, 0),
        Err(_) => fin(out, e, "panic", None, None, 0),
    }
}

/// the writer's payload encoders, then the real iterator's decoding of what was written
pub fn written_value(out: &mut Out, kind: &str, bits: u64) {
    use crate::dynspec::{self, DynTag, DynVal};
    use ebml_iterable::{TagIterator, TagWriter};
    dynspec::install(dynspec::codec_schema());
    let (id, tag) = match kind {
        "write_uint" => (0x81u64, DynTag { id: 0x81, v: DynVal::U(bits) }),
        "write_int" => (0x82u64, DynTag { id: 0x82, v: DynVal::I(bits as i64) }),
        _ => (0x83u64, DynTag { id: 0x83, v: DynVal::F(f64::from_bits(bits)) }),
    };
    let e = ev(kind, w8(bits), 0);
    let r = catch_unwind(AssertUnwindSafe(|| {
        let mut dest: Vec<u8> = Vec::new();
        let mut w = TagWriter::new(&mut dest);
        w.write(&tag).map_err(|e| format!("{e}"))?;
        drop(w);
        let mut it: TagIterator<_, DynTag> = TagIterator::new(&dest[..], &[]);
        let back = match it.next() {
            Some(Ok(t)) if t.id == id => match t.v {
                DynVal::U(x) => x,
                DynVal::I(x) => x as u64,
                DynVal::F(x) => x.to_bits(),
                _ => return Err("wrong type read back".to_string()),
            },
            other => return Err(format!("read back failed: {:?}", other.map(|r| r.map(|_| ())))),
        };
        Ok::<(Vec<u8>, u64), String>((dest, back))
    }));
    match r {
        // dest = id byte, size vint, payload; the size vint of an <= 8 byte payload is one byte
        Ok(Ok((dest, back))) => fin(out, e, "ok", Some(&dest[..]), Some(w8(back)), 0),
        Ok(Err(_)) => fin(out, e, "err", None, None, 0),
        Err(_) => fin(out, e, "panic", None, None, 0),
    }
}

pub fn lattice() -> Vec<u64> {
    let mut exps: Vec<u32> = Vec::new();
    for k in 1..=9u32 { exps.push(7 * k); exps.push(7 * k - 1); }
    for k in 1..=8u32 { exps.push(8 * k - 1); if k < 8 { exps.push(8 * k); } }
    let mut v: Vec<u64> = vec![0, 1, 2, 3, u64::MAX, u64::MAX - 1, u64::MAX - 2];
    for e in exps {
        if e > 63 { continue; }
        let p = 1u64 << e;
        for d in -2i64..=2 { let x = p.wrapping_add(d as u64); v.push(x); v.push(!x); v.push(x.wrapping_neg()); }
    }
    v.sort(); v.dedup(); v
}

pub fn run(out: &mut Out, seed: u64, thorough: bool) {
    let mut rng = Rng::new(seed);
    out.ev(json!({"ev":"case","n":0,"comp":"codec","what":"values"}));
    // (a) exhaustive small values, (b) lattice, (c) random 64-bit values of every magnitude
    let small: u64 = if thorough { 1 << 14 } else { 1500 };
    for v in 0..small { unsigned_value(out, v); }
    for v in 0..(if thorough { 1i64 << 13 } else { 700 }) { signed_value(out, v); signed_value(out, -v - 1); }
    let lat = lattice();
    for &v in &lat { unsigned_value(out, v); signed_value(out, v as i64); }
    let nrand = if thorough { 20000 } else { 1500 };
    for _ in 0..nrand {
        let bits = rng.range(1, 64);
        let v = rng.next_u64() >> (64 - bits);
        unsigned_value(out, v);
        signed_value(out, v as i64);
        signed_value(out, (v as i64).wrapping_neg());
    }
    out.ev(json!({"ev":"case","n":1,"comp":"codec","what":"slices"}));
    // decoders: every slice of <= 1 byte (<= 2 in thorough), structured and random slices <= 9 bytes
    slice(out, &[], false); payload_slice(out, &[]);
    for a in 0..=255u8 { slice(out, &[a], false); payload_slice(out, &[a]); }
    if thorough {
        for a in 0..=255u8 { for c in 0..=255u8 { slice(out, &[a, c], false); payload_slice(out, &[a, c]); } }
    } else {
        for a in [0u8, 1, 2, 0x3f, 0x40, 0x41, 0x7f, 0x80, 0x81, 0xbf, 0xc0, 0xfe, 0xff] {
            for c in [0u8, 1, 0x7f, 0x80, 0xff] { slice(out, &[a, c], false); payload_slice(out, &[a, c]); }
        }
    }
    let nsl = if thorough { 40000 } else { 8000 };
    for i in 0..nsl {
        let len = rng.range(0, 9);
        let mut s = rng.bytes(len);
        if len > 0 {
            // make every announced length (first byte class) equally likely, incl. 0x00 and 0x01
            let class = i % 10;
            s[0] = match class { 0 => 0, 9 => rng.next_u64() as u8, k => (1u8 << (8 - k)) | ((rng.next_u64() as u8) & ((1u16 << (8 - k)) - 1) as u8) };
            if rng.chance(1, 4) { for x in s.iter_mut().skip(1) { *x = *rng.pick(&[0u8, 0xff, 0x80, 0x7f]); } }
        }
        slice(out, &s, false);
        payload_slice(out, &s);
    }
    // f32 payloads: zeros, subnormals, normals, infinities, NaNs
    for bits in [0u32, 0x8000_0000, 1, 2, 0x007f_ffff, 0x0040_0000, 0x0000_0100, 0x0080_0000, 0x3f80_0000, 0xbf80_0000,
                 0x7f7f_ffff, 0x7f80_0000, 0xff80_0000, 0x7fc0_0000, 0x7f80_0001, 0xffc0_1234, 0x0012_3456, 0x8000_0001] {
        payload_slice(out, &bits.to_be_bytes());
    }
    for _ in 0..(if thorough { 5000 } else { 1000 }) { let x = rng.next_u64() as u32; payload_slice(out, &x.to_be_bytes()); 
        let sub = (rng.next_u64() as u32) & 0x807f_ffff; payload_slice(out, &sub.to_be_bytes()); }
    out.ev(json!({"ev":"case","n":2,"comp":"codec","what":"writer"}));
    for &v in &lat { written_value(out, "write_uint", v); written_value(out, "write_int", v); written_value(out, "write_float", v); }
    for _ in 0..(if thorough { 5000 } else { 1000 }) {
        let bits = rng.range(1, 64);
        let v = rng.next_u64() >> (64 - bits);
        written_value(out, "write_uint", v);
        written_value(out, "write_int", v);
        written_value(out, "write_int", (v as i64).wrapping_neg() as u64);
        written_value(out, "write_float", rng.next_u64());
    }
    for bits in [0u64, 1 << 63, 1, 0x000f_ffff_ffff_ffff, 0x0010_0000_0000_0000, 0x7ff0_0000_0000_0000, 0xfff0_0000_0000_0000,
                 0x7ff8_0000_0000_0000, 0x7ff0_0000_0000_0001, 0x3ff0_0000_0000_0000] {
        written_value(out, "write_float", bits);
    }
    out.ev(json!({"ev":"end"}));
}
