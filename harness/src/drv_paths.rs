//! Driver `paths` (C11): random specifications (forests of masters, leaves at any depth, global
//! placeholders with any bounds in trailing and intermediate position); random walks that open
//! chains of masters with the real TagWriter and record, for every attempted tag, the writer's
//! verdict and the strict reader's verdict on the corresponding byte stream.
use crate::dynspec::{self, schema_json, DynTag, DynVal, Schema};
use crate::gen;
use crate::j::*;
use crate::rng::Rng;
use ebml_iterable::error::{CorruptedFileError, TagIteratorError, TagWriterError};
use ebml_iterable::specs::{Master, PathPart, TagDataType};
use ebml_iterable::{TagIterator, TagWriter, WriteOptions};
use serde_json::{json, Value};

fn placeholder_schema(rng: &mut Rng) -> Schema {
    // a denser use of placeholders than gen::rand_schema: intermediate and trailing, all bound shapes
    let wide = rng.chance(1, 4);
    let mut s = gen::rand_schema(rng, &gen::SchemaOpts { wide_ids: wide, globals: true, max_depth: 4 });
    let bounds = [(None, None), (Some(1u64), None), (Some(0), Some(1)), (Some(1), Some(1)), (Some(1), Some(2)), (Some(2), Some(3)), (None, Some(2)), (Some(2), None)];
    let mut used = s.ids();
    let masters: Vec<(u64, Vec<PathPart>)> = s.entries.iter().filter(|e| e.ty == TagDataType::Master).map(|e| (e.id, e.path.clone())).collect();
    for k in 0..rng.range(1, 4) {
        let (pid, ppath) = rng.pick(&masters).clone();
        if matches!(ppath.last(), Some(PathPart::Global(_))) { continue; }
        let (a, z) = *rng.pick(&bounds);
        let mut p = ppath; p.push(PathPart::Id(pid)); p.push(PathPart::Global((a, z)));
        let mid = gen::rand_id(rng, &mut used, false);
        // master below an intermediate placeholder, and a leaf below that master
        s.entries.push(dynspec::Entry { id: mid, ty: TagDataType::Master, path: p.clone(), name: format!("PM{k}") });
        let mut lp = p.clone(); lp.push(PathPart::Id(mid));
        s.entries.push(dynspec::Entry { id: gen::rand_id(rng, &mut used, false), ty: TagDataType::UnsignedInt, path: lp, name: format!("PL{k}") });
    }
    s
}

/// a panic of the code under test is an answer that is neither acceptance nor the hierarchy error ("other")
fn reader_verdict(chain: &[u64], unk: &[bool], tag: u64, is_master: bool, ty: TagDataType) -> (String, Value) {
    reader_verdict_ex(chain, unk, 0, tag, is_master, ty)
}
/// ex: the innermost `ex` masters of the chain are empty and end (by their own known size, or that of the master around
/// them) right before the element
fn reader_verdict_ex(chain: &[u64], unk: &[bool], ex: usize, tag: u64, is_master: bool, ty: TagDataType) -> (String, Value) {
    std::panic::catch_unwind(|| reader_verdict_raw(chain, unk, ex, tag, is_master, ty)).unwrap_or_else(|_| ("other".into(), json!([])))
}
fn guarded<T>(f: impl FnOnce() -> Result<(), T>) -> Result<Result<(), T>, ()> {
    std::panic::catch_unwind(std::panic::AssertUnwindSafe(f)).map_err(|_| ())
}
fn reader_verdict_raw(chain: &[u64], unk: &[bool], ex: usize, tag: u64, is_master: bool, ty: TagDataType) -> (String, Value) {
    // bytes: chain masters (known sizes cover everything that follows), then the element
    let mut elem = gen::id_bytes(tag);
    if is_master { elem.push(0x80); } else {
        let payload: Vec<u8> = match ty { TagDataType::Float => vec![0; 4], TagDataType::Utf8 => b"a".to_vec(), _ => vec![1] };
        elem.push(0x80 | payload.len() as u8); elem.extend(payload);
    }
    // the ended group (innermost `ex` masters, empty), then the element, inside the rest of the chain
    let mut bytes: Vec<u8> = Vec::new();
    for k in (chain.len() - ex..chain.len()).rev() {
        let mut h = gen::id_bytes(chain[k]);
        if unk[k] { h.push(0xff); } else { h.extend(gen::size_field(bytes.len() as u64, 0)); }
        h.extend(bytes); bytes = h;
    }
    bytes.extend(elem);
    for k in (0..chain.len() - ex).rev() {
        let mut h = gen::id_bytes(chain[k]);
        if unk[k] { h.push(0xff); } else { h.extend(gen::size_field(bytes.len() as u64, 0)); }
        h.extend(bytes); bytes = h;
    }
    let mut it: TagIterator<_, DynTag> = TagIterator::new(&bytes[..], &[]);
    let mut starts = 0usize;
    for _ in 0..(2 * chain.len() + 4) {
        match it.next() {
            Some(Ok(t)) => match &t.v {
                DynVal::M(Master::Start) if starts < chain.len() && t.id == chain[starts] => { starts += 1; }
                // an End before the whole chain is open: a later chain master has ended an earlier unknown-size one,
                // so this chain cannot be open in the reader - no verdict
                DynVal::M(Master::End) if starts < chain.len() => return ("na".into(), json!([])),
                DynVal::M(Master::End) => {}
                _ => { return if starts == chain.len() && t.id == tag { ("ok".into(), idw(t.id)) } else { ("na".into(), json!([])) }; }
            },
            Some(Err(TagIteratorError::CorruptedFileData(CorruptedFileError::HierarchyError { found_tag_id, .. }))) => {

                return if starts == chain.len() { ("hier".into(), idw(found_tag_id)) } else { ("na".into(), json!([])) };
            }
            Some(Err(_)) => return (if starts == chain.len() { "other" } else { "na" }.into(), json!([])),
            None => return ("na".into(), json!([])),
        }
    }
    ("na".into(), json!([]))
}

pub fn run(out: &mut Out, seed: u64, thorough: bool) {
    let mut rng = Rng::new(seed);
    let nschemas = if thorough { 450 } else { 150 };     // (the systematic families make a case about 1400 events long)
    for n in 0..nschemas {
        let s = if n % 5 == 0 { gen::s3() } else { placeholder_schema(&mut rng) };
        dynspec::install(s.clone());
        out.ev(json!({"ev":"case","n":n as i64,"comp":"paths","schema":schema_json::<DynTag>(&s.ids())}));
        for _walk in 0..6 {
            let mut dest: Vec<u8> = Vec::new();
            let mut w = TagWriter::new(&mut dest);
            let mut chain: Vec<u64> = Vec::new();
            let mut unk: Vec<bool> = Vec::new();
            for _step in 0..14 {
                if !chain.is_empty() && rng.chance(1, 5) {
                    let id = chain.pop().unwrap(); unk.pop();
                    let _ = w.write(&DynTag { id, v: DynVal::M(Master::End) });
                    continue;
                }
                // bias towards tags that are plausible here: children of the innermost master, else anything
                let e = if rng.chance(1, 2) {
                    let near: Vec<&dynspec::Entry> = s.entries.iter().filter(|e| e.path.iter().any(|p| matches!(p, PathPart::Id(i) if chain.contains(i))) || e.path.is_empty() || e.path.iter().any(|p| matches!(p, PathPart::Global(_)))).collect();
                    if near.is_empty() { rng.pick(&s.entries).clone() } else { (*rng.pick(&near)).clone() }
                } else { rng.pick(&s.entries).clone() };
                let is_master = e.ty == TagDataType::Master;
                let as_unknown = is_master && rng.chance(1, 3);
                let tag = if is_master { DynTag { id: e.id, v: DynVal::M(Master::Start) } } else { gen::to_tag(&gen::Node::leaf(e.id, gen::rand_val(&mut rng, e.ty, false, false).0)) };
                let g = guarded(|| if as_unknown { w.write_advanced(&tag, WriteOptions::is_unknown_sized_element()) } else { w.write(&tag) });
                let panicked = g.is_err();
                let r = g.unwrap_or(Ok(()));
                let (wv, wid) = match &r {
                    _ if panicked => ("other".to_string(), json!([])),
                    Ok(()) => ("ok".to_string(), json!([])),
                    Err(TagWriterError::UnexpectedTag { tag_id, .. }) => ("unexpected_tag".to_string(), idw(*tag_id)),
                    Err(_) => ("other".to_string(), json!([])),
                };
                // the reader's verdict on the same chain: only when the chain starts at a true root element
                let rooted = chain.first().map(|c| s.get(*c).map(|e| e.path.is_empty()).unwrap_or(false)).unwrap_or(e.path.is_empty() || true);
                let (rv, rid) = if rooted && (!chain.is_empty() || e.path.is_empty()) { reader_verdict(&chain, &unk, e.id, is_master, e.ty) } else { ("na".to_string(), json!([])) };
                out.ev(json!({"ev":"path","chain":chain.iter().map(|c| idw(*c)).collect::<Vec<_>>(),"unk":unk,"tag":idw(e.id),"tag_unknown":as_unknown,
                              "w":wv,"wid":wid,"r":rv,"rid":rid}));
                if panicked { break; }
                if r.is_ok() && is_master { chain.push(e.id); unk.push(as_unknown); }
            }
        }
        // systematic: every chain that a declared all-named path spells out (the path of a master plus the master itself),
        // every assignment of unknown sizes to it, every tag of the specification - the reader judges an element that
        // closes unknown-size masters against the chain that remains after closing them
        let chains: Vec<Vec<u64>> = s.entries.iter().filter(|e| e.ty == TagDataType::Master && e.path.iter().all(|p| matches!(p, PathPart::Id(_))))
            .map(|e| { let mut c: Vec<u64> = e.path.iter().map(|p| match p { PathPart::Id(i) => *i, _ => 0 }).collect(); c.push(e.id); c })
            .filter(|c| c.len() >= 2 && c.len() <= 4).collect();
        // ... plus chains found by letting the writer open masters breadth-first (this reaches masters declared below
        // placeholders, whose chains no declared path spells out); sampled to keep the volume down
        let mut chains = chains;
        {
            let masters: Vec<u64> = s.entries.iter().filter(|e| e.ty == TagDataType::Master).map(|e| e.id).collect();
            let mut frontier: Vec<Vec<u64>> = vec![vec![]];
            for _depth in 0..4 {
                let mut next: Vec<Vec<u64>> = Vec::new();
                for c in &frontier {
                    for m in &masters {
                        let mut dest: Vec<u8> = Vec::new();
                        let mut w = TagWriter::new(&mut dest);
                        let mut ok = true;
                        for id in c.iter().chain(std::iter::once(m)) {
                            if !matches!(guarded(|| w.write(&DynTag { id: *id, v: DynVal::M(Master::Start) })), Ok(Ok(()))) { ok = false; break; }
                        }
                        if ok { let mut q = c.clone(); q.push(*m); next.push(q); }
                    }
                }
                while next.len() > 10 { let k = rng.below(next.len()); next.swap_remove(k); }
                for c in &next { if c.len() >= 2 && !chains.contains(c) && s.get(*c.last().unwrap()).map(|e| e.path.iter().any(|p| matches!(p, PathPart::Global(_)))).unwrap_or(false) { chains.push(c.clone()); } }
                frontier = next;
            }
        }
        for chain in chains.iter().rev().take(if thorough { 16 } else { 6 }) {
            for mask in 0..(1u32 << chain.len()) {
                if !thorough && n % 3 != 0 && mask.count_ones() < 2 { continue; }
                let unk: Vec<bool> = (0..chain.len()).map(|k| (mask >> k) & 1 == 1).collect();
                for e in s.entries.iter() {
                    let mut dest: Vec<u8> = Vec::new();
                    let mut w = TagWriter::new(&mut dest);
                    let mut opened = true;
                    for (k, id) in chain.iter().enumerate() {
                        let st = DynTag { id: *id, v: DynVal::M(Master::Start) };
                        let r = guarded(|| if unk[k] { w.write_advanced(&st, WriteOptions::is_unknown_sized_element()) } else { w.write(&st) });
                        if !matches!(r, Ok(Ok(()))) { opened = false; break; }
                    }
                    if !opened { continue; }
                    let is_master = e.ty == TagDataType::Master;
                    let tag = if is_master { DynTag { id: e.id, v: DynVal::M(Master::Start) } } else { gen::to_tag(&gen::Node::leaf(e.id, gen::rand_val(&mut rng, e.ty, false, false).0)) };
                    let g = guarded(|| w.write(&tag));
                    let panicked = g.is_err();
                    let r = g.unwrap_or(Ok(()));
                    let (wv, wid) = match &r {
                        _ if panicked => ("other".to_string(), json!([])),
                        Ok(()) => ("ok".to_string(), json!([])),
                        Err(TagWriterError::UnexpectedTag { tag_id, .. }) => ("unexpected_tag".to_string(), idw(*tag_id)),
                        Err(_) => ("other".to_string(), json!([])),
                    };
                    // the reader's verdict only for chains that start at a true root element (otherwise it has not fixed its position yet)
                    let rooted = s.get(chain[0]).map(|r| r.path.is_empty()).unwrap_or(false);
                    let (rv, rid) = if rooted { reader_verdict(chain, &unk, e.id, is_master, e.ty) } else { ("na".to_string(), json!([])) };
                    out.ev(json!({"ev":"path","chain":chain.iter().map(|c| idw(*c)).collect::<Vec<_>>(),"unk":unk,"tag":idw(e.id),"tag_unknown":false,
                                  "w":wv,"wid":wid,"r":rv,"rid":rid}));
                    // the tag as a child of a Full item of the innermost master (children of Full items are validated like any other tag)
                    if !unk[chain.len() - 1] && !is_master {
                        let mut dest3: Vec<u8> = Vec::new();
                        let mut w3 = TagWriter::new(&mut dest3);
                        let mut ok = true;
                        for (k, id) in chain.iter().enumerate().take(chain.len() - 1) {
                            let st = DynTag { id: *id, v: DynVal::M(Master::Start) };
                            let r = guarded(|| if unk[k] { w3.write_advanced(&st, WriteOptions::is_unknown_sized_element()) } else { w3.write(&st) });
                            if !matches!(r, Ok(Ok(()))) { ok = false; break; }
                        }
                        if ok {
                            let full = DynTag { id: chain[chain.len() - 1], v: DynVal::M(Master::Full(vec![tag.clone()])) };
                            let g = guarded(|| w3.write(&full));
                            let (wv3, wid3) = match &g { Err(_) => ("other".to_string(), json!([])), Ok(Ok(())) => ("ok".to_string(), json!([])),
                                Ok(Err(TagWriterError::UnexpectedTag { tag_id, .. })) => ("unexpected_tag".to_string(), idw(*tag_id)), Ok(Err(_)) => ("other".to_string(), json!([])) };
                            out.ev(json!({"ev":"path","chain":chain.iter().map(|c| idw(*c)).collect::<Vec<_>>(),"unk":unk,"tag":idw(e.id),"tag_unknown":false,"full":true,
                                          "w":wv3,"wid":wid3,"r":"na","rid":[]}));
                        }
                    }
                    // the same chain with its innermost masters already ended when the tag comes: by a known size of their own (the
                    // outermost of the ended group must have one), unknown-size masters inside it ending with it
                    for ex in 1..chain.len() {
                        if unk[chain.len() - ex] || !rooted { continue; }
                        let mut dest2: Vec<u8> = Vec::new();
                        let mut w2 = TagWriter::new(&mut dest2);
                        let mut ok = true;
                        for (k, id) in chain.iter().enumerate() {
                            let st = DynTag { id: *id, v: DynVal::M(Master::Start) };
                            let r = guarded(|| if unk[k] { w2.write_advanced(&st, WriteOptions::is_unknown_sized_element()) } else { w2.write(&st) });
                            if !matches!(r, Ok(Ok(()))) { ok = false; break; }
                        }
                        for id in chain.iter().rev().take(ex) { if !matches!(guarded(|| w2.write(&DynTag { id: *id, v: DynVal::M(Master::End) })), Ok(Ok(()))) { ok = false; } }
                        if !ok { continue; }
                        let g = guarded(|| w2.write(&tag));
                        let (wv2, wid2) = match &g { Err(_) => ("other".to_string(), json!([])), Ok(Ok(())) => ("ok".to_string(), json!([])),
                            Ok(Err(TagWriterError::UnexpectedTag { tag_id, .. })) => ("unexpected_tag".to_string(), idw(*tag_id)), Ok(Err(_)) => ("other".to_string(), json!([])) };
                        let (rv2, rid2) = reader_verdict_ex(chain, &unk, ex, e.id, is_master, e.ty);
                        out.ev(json!({"ev":"path","chain":chain.iter().map(|c| idw(*c)).collect::<Vec<_>>(),"unk":unk,"tag":idw(e.id),"tag_unknown":false,"ex":ex as i64,
                                      "w":wv2,"wid":wid2,"r":rv2,"rid":rid2}));
                    }
                }
            }
        }
        out.ev(json!({"ev":"end"}));
    }
}

/// The bounded universe of MC_PathMatch replayed into the real writer: three global masters (allowed anywhere,
/// so every chain can be opened), and one leaf per pattern of <= 3 parts (named parents and placeholders with
/// min in 0..2, max in {unbounded, 1, 2, 3}); the writer's verdict for the leaf under every chain of <= 4 masters.
pub fn exhaustive(out: &mut Out, seed: u64, stride: u64) {
    let ids = [0x81u64, 0x82, 0x83];
    let mut parts: Vec<PathPart> = ids.iter().map(|i| PathPart::Id(*i)).collect();
    for a in 0..=2u64 { for z in [None, Some(1u64), Some(2), Some(3)] { if z.map(|m| a <= m).unwrap_or(true) { parts.push(PathPart::Global((if a == 0 && z.is_none() { None } else { Some(a) }, z))); } } }
    let mut patterns: Vec<Vec<PathPart>> = vec![vec![]];
    let mut frontier: Vec<Vec<PathPart>> = vec![vec![]];
    for _ in 0..3 { let mut next = Vec::new(); for p in &frontier { for x in &parts { let mut q = p.clone(); q.push(*x); next.push(q); } } patterns.extend(next.iter().cloned()); frontier = next; }
    let mut chains: Vec<Vec<u64>> = vec![vec![]];
    let mut fr: Vec<Vec<u64>> = vec![vec![]];
    for _ in 0..4 { let mut next = Vec::new(); for c in &fr { for i in ids { let mut q = c.clone(); q.push(i); next.push(q); } } chains.extend(next.iter().cloned()); fr = next; }
    let mut idx: u64 = 0;
    for (n, pat) in patterns.iter().enumerate() {
        idx += 1;
        if stride > 1 && (idx.wrapping_mul(0x9E3779B97F4A7C15).wrapping_add(seed) >> 33) % stride != 0 { continue; }
        let mut entries: Vec<dynspec::Entry> = ids.iter().map(|i| dynspec::Entry { id: *i, ty: TagDataType::Master, path: vec![PathPart::Global((None, None))], name: format!("M{i:x}") }).collect();
        entries.push(dynspec::Entry { id: 0x90, ty: TagDataType::UnsignedInt, path: pat.clone(), name: "T".into() });
        let s = Schema { entries };
        dynspec::install(s.clone());
        out.ev(json!({"ev":"case","n":n as i64,"comp":"paths","schema":schema_json::<DynTag>(&s.ids())}));
        for c in &chains {
            let mut dest: Vec<u8> = Vec::new();
            let mut w = TagWriter::new(&mut dest);
            let mut opened = true;
            for m in c { if !matches!(guarded(|| w.write(&DynTag { id: *m, v: DynVal::M(Master::Start) })), Ok(Ok(()))) { opened = false; break; } }
            if !opened { continue; }
            let g = guarded(|| w.write(&DynTag { id: 0x90, v: DynVal::U(1) }));
            let panicked = g.is_err();
            let r = g.unwrap_or(Ok(()));
            let (wv, wid) = match &r { _ if panicked => ("other".to_string(), json!([])), Ok(()) => ("ok".to_string(), json!([])), Err(TagWriterError::UnexpectedTag { tag_id, .. }) => ("unexpected_tag".to_string(), idw(*tag_id)), Err(_) => ("other".to_string(), json!([])) };
            out.ev(json!({"ev":"path","chain":c.iter().map(|x| idw(*x)).collect::<Vec<_>>(),"unk":c.iter().map(|_| false).collect::<Vec<_>>(),"tag":idw(0x90),"tag_unknown":false,"w":wv,"wid":wid,"r":"na","rid":[]}));
        }
        out.ev(json!({"ev":"end"}));
    }
}
