//! derive-probe: the derive macro implementation of /repo (specification-derive/src/*.rs, included from
//! the working tree) called as a library on token streams: for each declaration (JSON line) both
//! front-ends - #[ebml_specification] and easy_ebml! - are run and acceptance / rejection recorded.
#![allow(dead_code)]
#[path = "/repo/specification-derive/src/ast.rs"]
mod ast;
#[path = "/repo/specification-derive/src/attr.rs"]
mod attr;
#[path = "/repo/specification-derive/src/easy_ebml.rs"]
mod easy_ebml;
#[path = "/repo/specification-derive/src/pathing.rs"]
mod pathing;

use proc_macro2::TokenStream;
use serde_json::{json, Value};
use std::io::{BufRead, Write};
use std::panic::{catch_unwind, AssertUnwindSafe};
use std::str::FromStr;

fn path_src(path: &Value) -> String {
    path.as_array().unwrap().iter().map(|p| {
        if p["k"] == "name" { p["name"].as_str().unwrap().to_string() }
        else { format!("({}-{})", if p["min"].as_i64().unwrap() < 0 { String::new() } else { p["min"].to_string() }, if p["max"].as_i64().unwrap() < 0 { String::new() } else { p["max"].to_string() }) }
    }).collect::<Vec<_>>().join("/")
}
/// source text of the declaration for the attribute front-end
pub fn attr_src(d: &Value, name: &str) -> String {
    let mut s = format!("pub enum {} {{\n", name);
    for v in d["variants"].as_array().unwrap() {
        if v["has_id"].as_bool().unwrap() { s += &format!("    #[id({})]\n", v["id"].as_str().unwrap()); }
        if v["dup_id"].as_bool().unwrap_or(false) { s += &format!("    #[id({})]\n", v["id"].as_str().unwrap()); }
        if v["has_ty"].as_bool().unwrap() { s += &format!("    #[data_type(TagDataType::{})]\n", v["ty"].as_str().unwrap()); }
        if !v["path"].as_array().unwrap().is_empty() { s += &format!("    #[doc_path({})]\n", path_src(&v["path"])); }
        s += &format!("    {},\n", v["name"].as_str().unwrap());
    }
    s + "}\n"
}
/// source text for easy_ebml! (None if the declaration cannot be expressed: missing attributes)
pub fn easy_src(d: &Value, name: &str) -> Option<String> {
    let mut s = format!("pub enum {} {{\n", name);
    for v in d["variants"].as_array().unwrap() {
        if !v["has_id"].as_bool().unwrap() || !v["has_ty"].as_bool().unwrap() || v["dup_id"].as_bool().unwrap_or(false) { return None; }
        let p = path_src(&v["path"]);
        s += &format!("    {}{}: {} = {},\n", if p.is_empty() { String::new() } else { p + "/" }, v["name"].as_str().unwrap(), v["ty"].as_str().unwrap(), v["id"].as_str().unwrap());
    }
    Some(s + "}\n")
}

fn run_attr(src: &str) -> (String, String) {
    let r = catch_unwind(AssertUnwindSafe(|| -> Result<TokenStream, String> {
        let ts = TokenStream::from_str(src).map_err(|e| format!("lex: {e}"))?;
        let mut item: syn::ItemEnum = syn::parse2(ts).map_err(|e| format!("parse: {e}"))?;
        attr::impl_ebml_specification(&mut item).map_err(|e| e.to_string())
    }));
    match r { Ok(Ok(t)) => ("ok".into(), t.to_string()), Ok(Err(e)) => ("error".into(), e), Err(_) => ("panic".into(), String::new()) }
}
fn run_easy(src: &str) -> (String, String) {
    let r = catch_unwind(AssertUnwindSafe(|| -> Result<TokenStream, String> {
        let ts = TokenStream::from_str(src).map_err(|e| format!("lex: {e}"))?;
        let easy: easy_ebml::EasyEBML = syn::parse2(ts).map_err(|e| format!("parse: {e}"))?;
        let lowered = easy.implement().map_err(|e| e.to_string())?;
        // what the compiler does next: expand the #[ebml_specification] attribute on the lowered enum
        let mut item: syn::ItemEnum = syn::parse2(lowered).map_err(|e| format!("reparse: {e}"))?;
        item.attrs.retain(|a| !a.path.segments.iter().any(|s| s.ident == "ebml_specification"));
        attr::impl_ebml_specification(&mut item).map_err(|e| e.to_string())
    }));
    match r { Ok(Ok(t)) => ("ok".into(), t.to_string()), Ok(Err(e)) => ("error".into(), e), Err(_) => ("panic".into(), String::new()) }
}

fn main() {
    std::panic::set_hook(Box::new(|_| {}));
    let args: Vec<String> = std::env::args().collect();
    let inp = std::fs::File::open(&args[1]).expect("input");
    let mut out = std::io::BufWriter::new(std::fs::File::create(&args[2]).expect("output"));
    for line in std::io::BufReader::new(inp).lines() {
        let d: Value = serde_json::from_str(&line.unwrap()).unwrap();
        let a_src = attr_src(&d, "D");
        let (a_res, a_tok) = run_attr(&a_src);
        let (e_res, e_tok, e_src) = match easy_src(&d, "D") { Some(s) => { let (r, t) = run_easy(&s); (r, t, s) } None => ("na".to_string(), String::new(), String::new()) };
        let tokens_equal = a_res == "ok" && e_res == "ok" && a_tok == e_tok;
        let v = json!({"n": d["n"], "attr": a_res, "easy": e_res, "tokens_equal": tokens_equal, "attr_msg": if a_res == "error" { a_tok.chars().take(100).collect::<String>() } else { String::new() },
                       "attr_src": a_src, "easy_src": e_src});
        serde_json::to_writer(&mut out, &v).unwrap(); out.write_all(b"\n").unwrap();
    }
}
